CONSTANTS MaxC = 4 MaxR = 2 MaxP = 4 MaxB = 2 WrongInverseOrder = TRUE
INIT Init
NEXT Next
INVARIANTS ChainInv
CHECK_DEADLOCK FALSE
