CONSTANTS W = 2 Target = 1 Epochs = 1 KeepSender = FALSE JoinUnwrap = FALSE Faults <- AllFaults QMax = 2 Outcomes <- OutBch BchThreshold = 2 RQMax = 2 BoundedSend = FALSE MaxFrames = 4
SPECIFICATION Spec
VIEW View
CONSTRAINT FrameBound
INVARIANTS OneLinePerEbN0 LinesPrefix StatsExact StopExact BchRule NoLeak FinishedLast NoCollectorPanic NoStuck ErrorOnFault
CHECK_DEADLOCK FALSE
