CONSTANTS NR = 3 NC = 3 TrackBranch = FALSE Bounds <- BoundsAll
INIT Init
NEXT Next
INVARIANTS DistancesExact GirthExact LowerBound
CHECK_DEADLOCK FALSE
