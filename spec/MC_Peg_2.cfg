CONSTANTS NR = 2 NC = 3 WC = 3
INIT Init
NEXT Next
INVARIANTS Legal
CHECK_DEADLOCK FALSE
