----------------------------- MODULE Trace_C04 -----------------------------
(***************************************************************************)
(* C04: direct calls of send_check_messages of the 24 arithmetics, judged  *)
(* by the property-level clauses of Arith.tla.                             *)
(*  Check8 {arith, kind, phl, in:[[src,val]], out:[[dst,val]], refs}       *)
(*  CheckF {arith, kind, f32, inrange, tied, d, in:[[src,sgn,micro]],      *)
(*          out:[{dst, s, m, fin, ref_m, ref_s, refc, err_cb,              *)
(*                all_m, all_c, err_all_cb, argmin}]}                      *)
(*   micro = |value| in 1e-6 units (capped at 2e9); *_cb = ceil(100*log10  *)
(*   |got - reference|); ref = exact box-plus of the OTHER inputs, all =   *)
(*   exact box-plus of ALL inputs with the destination's sign.             *)
(***************************************************************************)
EXTENDS TraceKit, Arith

VARIABLES l
vars == <<l>>

Check8OK(ev) == ev.o = "ok" /\ Check8PropOK(ev.kind, ev.phl, ev.in, ev.out, ev.refs)

\* rounding noise below which a sign carries no information; relative slack of magnitude comparisons
NoiseU(f32)  == IF f32 THEN 2000 ELSE 20                      \* micro-units
SlackU(f32, m) == (IF f32 THEN m \div 100000 ELSE m \div 100000000) + 3

InIds(ev) == [k \in 1..Len(ev.in) |-> ev.in[k][1]]
OutIds(ev) == [k \in 1..Len(ev.out) |-> ev.out[k].dst]
OthersNeg(ev, i) == Cardinality({ k \in 1..Len(ev.in) : k # i /\ ev.in[k][2] < 0 }) % 2 = 1
OthersMin(ev, i) == SetMin({ ev.in[k][3] : k \in { j \in 1..Len(ev.in) : j # i } })

AccurateSumProduct(ev, o) ==
  o.refc > WorkingRange(ev.kind, ev.f32) \/ o.err_cb <= TolSumProduct(ev.f32, ev.d, o.refc)
AccurateAmin(ev, o) ==
  \/ (o.argmin /\ o.err_cb <= TolMinstar(ev.f32, ev.d, o.refc))                 \* exact towards the least reliable input
  \/ ((~o.argmin \/ ev.tied) /\ o.err_all_cb <= TolMinstar(ev.f32, ev.d, o.all_c))   \* box-plus of ALL inputs to the others
AccurateApprox(ev, o) ==
  LET lo == Max2(0, o.ref_m - (ev.d - 2) * Ln2u) IN
  /\ o.m >= lo - SlackU(ev.f32, o.ref_m) - (ev.d * 2)
  /\ o.m <= o.ref_m + SlackU(ev.f32, o.ref_m) + (ev.d * 2)

CheckFOK(ev) ==
  /\ ev.o = "ok"
  /\ OnePerNeighbour(InIds(ev), OutIds(ev))
  /\ \A k \in 1..Len(ev.out) :
       LET o == ev.out[k] i == PosOf(InIds(ev), o.dst) IN
       /\ o.fin
       /\ (o.m > NoiseU(ev.f32) => (o.s < 0) = OthersNeg(ev, i))
       \* never above the smallest other magnitude, up to the rule's own rounding at that magnitude
       /\ (ev.inrange => o.exc_cb <= (IF ev.kind \in {"phi", "tanh"} THEN TolSumProduct(ev.f32, ev.d, o.minc)
                                      ELSE TolMinstar(ev.f32, ev.d, o.minc)))
       /\ (ev.inrange =>
             CASE ev.kind \in {"phi", "tanh"} -> AccurateSumProduct(ev, o)
               [] ev.kind = "aminstar"        -> AccurateAmin(ev, o)
               [] ev.kind = "minstar"         -> AccurateApprox(ev, o))

OK(ev) == CASE ev.e = "Check8" -> Check8OK(ev) [] ev.e = "CheckF" -> CheckFOK(ev) [] OTHER -> FALSE

Init == l = 1
Step == /\ l <= NRec
        /\ IF OK(Rec[l]) THEN l' = l + 1 ELSE Reject(l, "C04") /\ l' = Rec[l].nx
Fin  == l = NRec + 1 /\ Done(l) /\ l' = l + 1
Next == Step \/ Fin
=============================================================================
