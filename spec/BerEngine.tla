----------------------------- MODULE BerEngine -----------------------------
(***************************************************************************)
(* src/simulation/ber.rs (C13): the collector (`do_run'), W free-running   *)
(* workers, the unbounded result channel, one capacity-1 terminate channel *)
(* per worker, joins, the reporter, one epoch per Eb/N0.                   *)
(*                                                                         *)
(* One label per blocking or externally visible step.  Channels as in the  *)
(* code: `queue' is the FIFO of results, `senders' the set of live sender  *)
(* handles (a recv on an empty queue blocks while a sender exists and      *)
(* reports disconnection otherwise), `term[w]' the 0/1 terminate buffer.   *)
(*                                                                         *)
(* Constants that select the variant of the design:                        *)
(*   KeepSender  the collector keeps its own clone of the result sender    *)
(*               for the whole epoch (code as found: a recv can then never *)
(*               observe disconnection -> defect D7)                       *)
(*   JoinUnwrap  a panicked worker makes the collector panic at join       *)
(*               (as found) instead of returning an error                  *)
(*   Faults      which worker faults may occur: subset of                  *)
(*               {"stage_err", "panic"}                                    *)
(*   QMax        finite-state abstraction: a worker does not run more than *)
(*               QMax results ahead of the collector                       *)
(*   Outcomes    frame outcomes a worker may produce                       *)
(*   BoundedSend the result channel is a BOUNDED channel of capacity QMax   *)
(*               whose send blocks (a variant of the design that deadlocks *)
(*               at join: negative configuration); FALSE = as built        *)
(*   RQMax       periodic reports are only modelled while fewer than RQMax *)
(*               reports are pending (finite-state abstraction)            *)
(***************************************************************************)
EXTENDS BerStats, TLC

CONSTANTS W, Target, Epochs, KeepSender, JoinUnwrap, Faults, QMax, Outcomes, BchThreshold, MaxFrames, RQMax, BoundedSend

Workers == 1..W
ErrRec == [be |-> -1, ok |-> FALSE, it |-> 0]       \* the Err(()) a worker sends when a stage fails (TLC cannot compare a record with a string)
Acc(s, o) == AccT(s, o, BchThreshold)
ErrorsForTermination(s) == ErrorsT(s, BchThreshold)
Fold(seq, k) == FoldT(seq, k, BchThreshold)

(* --algorithm BerEngine {
  variables
    queue = <<>>,                         \* results in flight: outcome records or ErrRec
    senders = {},                         \* live sender handles: worker ids, and 0 = the collector's own clone
    term = [w \in Workers |-> 0],          \* terminate channels (capacity 1)
    wstate = [w \in Workers |-> "idle"],   \* "idle" | "run" | "ok" | "err" | "panic"
    epoch = 1,
    stats = Zero,
    consumed = <<>>,                      \* history: results consumed in this epoch (hidden by VIEW)
    published = <<>>,                     \* final statistics pushed, one per finished epoch
    reports = <<>>,                       \* what the reporter channel received: "final" per epoch, "Finished"
    rq = <<>>,                            \* the reporter channel as the CLI's Progress thread sees it: epoch numbers, 0 = Finished
    lastRep = -1,                         \* Progress: Eb/N0 (epoch) of the last statistics it has seen
    lines = <<>>,                         \* Progress: result lines written to the output file (one epoch number each)
    result = "running";                   \* "running" | "ok" | "error" | "panic"

  fair process (Collector = 0)
    variables r = ErrRec; failed = FALSE;
  {
  c_epoch:
    while (epoch <= Epochs /\ ~failed) {
      \* spawn: every worker gets a clone of the sender and an empty terminate channel
      senders := Workers \cup (IF KeepSender THEN {0} ELSE {});
      term := [w \in Workers |-> 0];
      wstate := [w \in Workers |-> "run"];
      queue := <<>>; stats := Zero; consumed := <<>>;
  c_loop:
      while (ErrorsForTermination(stats) < Target) {
  c_recv:
        await queue # <<>> \/ senders = {};            \* recv(): blocks while empty and some sender is alive
        if (queue = <<>>) {
          goto c_stop;                                 \* disconnected: every worker is gone
        } else {
          r := Head(queue); queue := Tail(queue);
          if (r = ErrRec) { goto c_stop; }              \* a stage returned an error
          else { stats := Acc(stats, r); consumed := Append(consumed, r); }
        };
  c_report:                                            \* report!(..., final = false): only if the interval has elapsed
        either { if (Len(rq) < RQMax) { rq := Append(rq, epoch); } } or { skip; }
      };
  c_stop:
      reports := Append(reports, "final");             \* report!(..., final = true)
      rq := Append(rq, epoch);
      term := [w \in Workers |-> 1];                   \* try-send terminate to every worker (never blocks)
  c_join:
      await \A w \in Workers : wstate[w] \in {"ok", "err", "panic"};     \* join every worker
      senders := senders \ {0};
      if (JoinUnwrap /\ \E w \in Workers : wstate[w] = "panic") {
        result := "panic"; failed := TRUE;             \* handle.join().unwrap() panics the collector: no Finished report
        goto c_done;
      } else if (\E w \in Workers : wstate[w] \in {"err", "panic"}) {
        failed := TRUE;                                \* an error is returned; statistics of this epoch are not pushed
      } else {
        published := Append(published, stats);
        epoch := epoch + 1;
      }
    };
  c_fin:
    reports := Append(reports, "Finished");
    rq := Append(rq, 0);
    result := IF failed THEN "error" ELSE "ok";
  c_done:
    skip;
  }

  \* src/cli/ber.rs Progress::work: one output-file line per Eb/N0, written when the Eb/N0 of the incoming statistics
  \* changes or when Finished arrives (last_stats.unwrap() must not meet None)
  fair process (Progress = -1)
    variables x = 0;
  {
  p_loop:
    while (TRUE) {
      await rq # <<>>;
      x := Head(rq); rq := Tail(rq);
      if (x = 0) {
        assert lastRep # -1;                             \* last_stats.unwrap()
        lines := Append(lines, lastRep);
        goto p_done;
      } else {
        if (lastRep # -1 /\ lastRep # x) { lines := Append(lines, lastRep); };
        lastRep := x;
      }
    };
  p_done:
    skip;
  }

  fair process (Worker \in Workers)
    variables pend = ErrRec; sending = FALSE;
  {
  w_wait:
    while (TRUE) {
      await wstate[self] = "run";
  w_poll:
      if (term[self] = 1) {                            \* terminate_rx.try_recv() == Ok(())
        wstate[self] := "ok"; senders := senders \ {self};
      } else {
        either {                                       \* simulate one frame and send the result
          with (o \in Outcomes) {
            if (BoundedSend) { pend := o; sending := TRUE; }              \* committed to a send that may block
            else { await Len(queue) < QMax; queue := Append(queue, o); }  \* unbounded channel (abstraction: not more than QMax ahead)
          }
        } or {                                         \* a stage (puncturer) returns an error: send Err, then exit with it
          await "stage_err" \in Faults;
          queue := Append(queue, ErrRec);
          wstate[self] := "err"; senders := senders \ {self};
        } or {                                         \* a stage (interleaver, modulator, decoder) panics: exit without sending
          await "panic" \in Faults;
          wstate[self] := "panic"; senders := senders \ {self};
        }
      };
  w_send:
      if (sending) {                                   \* only with BoundedSend: SyncSender::send blocks while the queue is full
        await Len(queue) < QMax;
        queue := Append(queue, pend); sending := FALSE;
      }
    }
  }
} *)
\* BEGIN TRANSLATION (chksum(pcal) = "5f4a7204" /\ chksum(tla) = "f02b6b47")
VARIABLES pc, queue, senders, term, wstate, epoch, stats, consumed, published, 
          reports, rq, lastRep, lines, result, r, failed, x, pend, sending

vars == << pc, queue, senders, term, wstate, epoch, stats, consumed, 
           published, reports, rq, lastRep, lines, result, r, failed, x, pend, 
           sending >>

ProcSet == {0} \cup {-1} \cup (Workers)

Init == (* Global variables *)
        /\ queue = <<>>
        /\ senders = {}
        /\ term = [w \in Workers |-> 0]
        /\ wstate = [w \in Workers |-> "idle"]
        /\ epoch = 1
        /\ stats = Zero
        /\ consumed = <<>>
        /\ published = <<>>
        /\ reports = <<>>
        /\ rq = <<>>
        /\ lastRep = -1
        /\ lines = <<>>
        /\ result = "running"
        (* Process Collector *)
        /\ r = ErrRec
        /\ failed = FALSE
        (* Process Progress *)
        /\ x = 0
        (* Process Worker *)
        /\ pend = [self \in Workers |-> ErrRec]
        /\ sending = [self \in Workers |-> FALSE]
        /\ pc = [self \in ProcSet |-> CASE self = 0 -> "c_epoch"
                                        [] self = -1 -> "p_loop"
                                        [] self \in Workers -> "w_wait"]

c_epoch == /\ pc[0] = "c_epoch"
           /\ IF epoch <= Epochs /\ ~failed
                 THEN /\ senders' = (Workers \cup (IF KeepSender THEN {0} ELSE {}))
                      /\ term' = [w \in Workers |-> 0]
                      /\ wstate' = [w \in Workers |-> "run"]
                      /\ queue' = <<>>
                      /\ stats' = Zero
                      /\ consumed' = <<>>
                      /\ pc' = [pc EXCEPT ![0] = "c_loop"]
                 ELSE /\ pc' = [pc EXCEPT ![0] = "c_fin"]
                      /\ UNCHANGED << queue, senders, term, wstate, stats, 
                                      consumed >>
           /\ UNCHANGED << epoch, published, reports, rq, lastRep, lines, 
                           result, r, failed, x, pend, sending >>

c_loop == /\ pc[0] = "c_loop"
          /\ IF ErrorsForTermination(stats) < Target
                THEN /\ pc' = [pc EXCEPT ![0] = "c_recv"]
                ELSE /\ pc' = [pc EXCEPT ![0] = "c_stop"]
          /\ UNCHANGED << queue, senders, term, wstate, epoch, stats, consumed, 
                          published, reports, rq, lastRep, lines, result, r, 
                          failed, x, pend, sending >>

c_recv == /\ pc[0] = "c_recv"
          /\ queue # <<>> \/ senders = {}
          /\ IF queue = <<>>
                THEN /\ pc' = [pc EXCEPT ![0] = "c_stop"]
                     /\ UNCHANGED << queue, stats, consumed, r >>
                ELSE /\ r' = Head(queue)
                     /\ queue' = Tail(queue)
                     /\ IF r' = ErrRec
                           THEN /\ pc' = [pc EXCEPT ![0] = "c_stop"]
                                /\ UNCHANGED << stats, consumed >>
                           ELSE /\ stats' = Acc(stats, r')
                                /\ consumed' = Append(consumed, r')
                                /\ pc' = [pc EXCEPT ![0] = "c_report"]
          /\ UNCHANGED << senders, term, wstate, epoch, published, reports, rq, 
                          lastRep, lines, result, failed, x, pend, sending >>

c_report == /\ pc[0] = "c_report"
            /\ \/ /\ IF Len(rq) < RQMax
                        THEN /\ rq' = Append(rq, epoch)
                        ELSE /\ TRUE
                             /\ rq' = rq
               \/ /\ TRUE
                  /\ rq' = rq
            /\ pc' = [pc EXCEPT ![0] = "c_loop"]
            /\ UNCHANGED << queue, senders, term, wstate, epoch, stats, 
                            consumed, published, reports, lastRep, lines, 
                            result, r, failed, x, pend, sending >>

c_stop == /\ pc[0] = "c_stop"
          /\ reports' = Append(reports, "final")
          /\ rq' = Append(rq, epoch)
          /\ term' = [w \in Workers |-> 1]
          /\ pc' = [pc EXCEPT ![0] = "c_join"]
          /\ UNCHANGED << queue, senders, wstate, epoch, stats, consumed, 
                          published, lastRep, lines, result, r, failed, x, 
                          pend, sending >>

c_join == /\ pc[0] = "c_join"
          /\ \A w \in Workers : wstate[w] \in {"ok", "err", "panic"}
          /\ senders' = senders \ {0}
          /\ IF JoinUnwrap /\ \E w \in Workers : wstate[w] = "panic"
                THEN /\ result' = "panic"
                     /\ failed' = TRUE
                     /\ pc' = [pc EXCEPT ![0] = "c_done"]
                     /\ UNCHANGED << epoch, published >>
                ELSE /\ IF \E w \in Workers : wstate[w] \in {"err", "panic"}
                           THEN /\ failed' = TRUE
                                /\ UNCHANGED << epoch, published >>
                           ELSE /\ published' = Append(published, stats)
                                /\ epoch' = epoch + 1
                                /\ UNCHANGED failed
                     /\ pc' = [pc EXCEPT ![0] = "c_epoch"]
                     /\ UNCHANGED result
          /\ UNCHANGED << queue, term, wstate, stats, consumed, reports, rq, 
                          lastRep, lines, r, x, pend, sending >>

c_fin == /\ pc[0] = "c_fin"
         /\ reports' = Append(reports, "Finished")
         /\ rq' = Append(rq, 0)
         /\ result' = IF failed THEN "error" ELSE "ok"
         /\ pc' = [pc EXCEPT ![0] = "c_done"]
         /\ UNCHANGED << queue, senders, term, wstate, epoch, stats, consumed, 
                         published, lastRep, lines, r, failed, x, pend, 
                         sending >>

c_done == /\ pc[0] = "c_done"
          /\ TRUE
          /\ pc' = [pc EXCEPT ![0] = "Done"]
          /\ UNCHANGED << queue, senders, term, wstate, epoch, stats, consumed, 
                          published, reports, rq, lastRep, lines, result, r, 
                          failed, x, pend, sending >>

Collector == c_epoch \/ c_loop \/ c_recv \/ c_report \/ c_stop \/ c_join
                \/ c_fin \/ c_done

p_loop == /\ pc[-1] = "p_loop"
          /\ rq # <<>>
          /\ x' = Head(rq)
          /\ rq' = Tail(rq)
          /\ IF x' = 0
                THEN /\ Assert(lastRep # -1, 
                               "Failure of assertion at line 114, column 9.")
                     /\ lines' = Append(lines, lastRep)
                     /\ pc' = [pc EXCEPT ![-1] = "p_done"]
                     /\ UNCHANGED lastRep
                ELSE /\ IF lastRep # -1 /\ lastRep # x'
                           THEN /\ lines' = Append(lines, lastRep)
                           ELSE /\ TRUE
                                /\ lines' = lines
                     /\ lastRep' = x'
                     /\ pc' = [pc EXCEPT ![-1] = "p_loop"]
          /\ UNCHANGED << queue, senders, term, wstate, epoch, stats, consumed, 
                          published, reports, result, r, failed, pend, sending >>

p_done == /\ pc[-1] = "p_done"
          /\ TRUE
          /\ pc' = [pc EXCEPT ![-1] = "Done"]
          /\ UNCHANGED << queue, senders, term, wstate, epoch, stats, consumed, 
                          published, reports, rq, lastRep, lines, result, r, 
                          failed, x, pend, sending >>

Progress == p_loop \/ p_done

w_wait(self) == /\ pc[self] = "w_wait"
                /\ wstate[self] = "run"
                /\ pc' = [pc EXCEPT ![self] = "w_poll"]
                /\ UNCHANGED << queue, senders, term, wstate, epoch, stats, 
                                consumed, published, reports, rq, lastRep, 
                                lines, result, r, failed, x, pend, sending >>

w_poll(self) == /\ pc[self] = "w_poll"
                /\ IF term[self] = 1
                      THEN /\ wstate' = [wstate EXCEPT ![self] = "ok"]
                           /\ senders' = senders \ {self}
                           /\ UNCHANGED << queue, pend, sending >>
                      ELSE /\ \/ /\ \E o \in Outcomes:
                                      IF BoundedSend
                                         THEN /\ pend' = [pend EXCEPT ![self] = o]
                                              /\ sending' = [sending EXCEPT ![self] = TRUE]
                                              /\ queue' = queue
                                         ELSE /\ Len(queue) < QMax
                                              /\ queue' = Append(queue, o)
                                              /\ UNCHANGED << pend, sending >>
                                 /\ UNCHANGED <<senders, wstate>>
                              \/ /\ "stage_err" \in Faults
                                 /\ queue' = Append(queue, ErrRec)
                                 /\ wstate' = [wstate EXCEPT ![self] = "err"]
                                 /\ senders' = senders \ {self}
                                 /\ UNCHANGED <<pend, sending>>
                              \/ /\ "panic" \in Faults
                                 /\ wstate' = [wstate EXCEPT ![self] = "panic"]
                                 /\ senders' = senders \ {self}
                                 /\ UNCHANGED <<queue, pend, sending>>
                /\ pc' = [pc EXCEPT ![self] = "w_send"]
                /\ UNCHANGED << term, epoch, stats, consumed, published, 
                                reports, rq, lastRep, lines, result, r, failed, 
                                x >>

w_send(self) == /\ pc[self] = "w_send"
                /\ IF sending[self]
                      THEN /\ Len(queue) < QMax
                           /\ queue' = Append(queue, pend[self])
                           /\ sending' = [sending EXCEPT ![self] = FALSE]
                      ELSE /\ TRUE
                           /\ UNCHANGED << queue, sending >>
                /\ pc' = [pc EXCEPT ![self] = "w_wait"]
                /\ UNCHANGED << senders, term, wstate, epoch, stats, consumed, 
                                published, reports, rq, lastRep, lines, result, 
                                r, failed, x, pend >>

Worker(self) == w_wait(self) \/ w_poll(self) \/ w_send(self)

Next == Collector \/ Progress
           \/ (\E self \in Workers: Worker(self))

Spec == /\ Init /\ [][Next]_vars
        /\ WF_vars(Collector)
        /\ WF_vars(Progress)
        /\ \A self \in Workers : WF_vars(Worker(self))

\* END TRANSLATION 
=============================================================================
