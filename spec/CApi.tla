-------------------------------- MODULE CApi --------------------------------
(***************************************************************************)
(* src/c_api (C19): the C interface as a relation between each C call and  *)
(* the result of the public Rust API on FRESH objects.                     *)
(*   handle = NULL  iff  the file is unreadable, or the alist text does    *)
(*   not parse, or (decoder) the implementation string is not one of the   *)
(*   36 names, or the puncturing string is neither empty (= no puncturing) *)
(*   nor a comma list of 0/1, or (encoder) the systematic encoder rejects  *)
(*   the matrix (singular last columns).                                   *)
(*   decode returns the iteration count on success and -1 on failure and   *)
(*   fills the output with the leading bits of the Rust decoder's word for *)
(*   the depunctured LLRs; encode writes the punctured codeword.           *)
(***************************************************************************)
EXTENDS Factory, Integers

PatternOK(tokens) == \A t \in 1..Len(tokens) : tokens[t] \in {"0", "1"}       \* empty string = no tokens = no puncturing

\* expected nullness of a constructor
ExpectNull(kind, fileOk, alistOk, name, tokens, encOk) ==
  ~( /\ fileOk /\ alistOk
     /\ (kind = "dec" => name \in Names)
     /\ PatternOK(tokens)
     /\ (kind = "enc" => encOk) )

Prefix(w, k) == SubSeq(w, 1, k)
DecodeRel(ret, out, outLen, ref) ==
  /\ ref.verdict \in {"ok", "err"}
  /\ ret = (IF ref.verdict = "ok" THEN ref.iters ELSE -1)
  /\ outLen <= Len(ref.word) /\ out = Prefix(ref.word, outLen)
=============================================================================
