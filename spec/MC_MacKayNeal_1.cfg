CONSTANTS NR = 3 NC = 4 WR = 3 WC = 2 Uniform = FALSE MinGirth = 0 BtCols = 1 BtTrials = 1 GirthTrials = 0
INIT Init
NEXT Next
INVARIANTS Success Replayable
CHECK_DEADLOCK FALSE
