CONSTANTS W = 2 Target = 1 Epochs = 1 KeepSender = FALSE JoinUnwrap = FALSE Faults <- NoFaults QMax = 2 Outcomes <- OutErr BchThreshold = 0 RQMax = 2 BoundedSend = TRUE MaxFrames = 100
SPECIFICATION Spec
INVARIANTS NoBlockedSendAtJoin
CHECK_DEADLOCK FALSE
