------------------------------ MODULE MC_Arith ------------------------------
(***************************************************************************)
(* Design-level theorems of the exact 8-bit models (Arith.tla), checked by *)
(* TLC by enumeration: every state is one call on a lattice of inputs.     *)
(*  - outputs of the check rules stay in [-127,127], have the sign parity  *)
(*    of the other inputs and never exceed the smallest other magnitude    *)
(*    (except partial hard limiting of magnitudes >= 100)                  *)
(*  - the variable rule never leaves [-127,127]; the i16 accumulator bound *)
(*  - layered = flooding rule on the clipped extrinsics + unclipped sum    *)
(***************************************************************************)
EXTENDS Arith, TLC
CONSTANTS Lat, MaxDeg
LatQ == {-127, -100, -64, -9, 0, 9, 64, 100, 127}
LatT == {-127, -116, -100, -99, -64, -9, -1, 0, 1, 9, 64, 99, 100, 116, 127}
VARIABLES call
vars == <<call>>

Seqs(S, lo, hi) == UNION { [1..n -> S] : n \in lo..hi }
Init == \/ \E kind \in {"minstar", "aminstar"}, phl \in BOOLEAN, ins \in Seqs(Lat, 2, MaxDeg) :
             call = [f |-> "check", kind |-> kind, phl |-> phl, ins |-> ins]
        \/ \E jones \in BOOLEAN, deg1 \in BOOLEAN, llr \in Lat, msgs \in Seqs(Lat, 1, MaxDeg) :
             call = [f |-> "var", jones |-> jones, deg1 |-> deg1, llr |-> llr, msgs |-> msgs]
Next == UNCHANGED call

CheckThm == call.f = "check" =>
  LET out == Check8(call.kind, call.ins, call.phl) IN
  \A i \in 1..Len(out) :
    LET o == Others(call.ins, i) IN
    /\ out[i] \in -127..127
    /\ (out[i] # 0 => (out[i] < 0) = (NegParity(o) = 1))
    /\ \/ Abs(out[i]) <= SetMin(SeqSet(Mags(o)))
       \/ call.phl /\ Abs(out[i]) = 127 /\ SetMin(SeqSet(Mags(o))) >= 100
VarThm == call.f = "var" =>
  LET r == Var8(call.llr, call.msgs, call.jones, call.deg1)
      tot == call.llr + SumSeq(call.msgs, Len(call.msgs)) IN
  /\ r.ret \in -127..127 /\ \A i \in 1..Len(r.out) : r.out[i] \in -127..127
  /\ Abs(tot) <= 127 * (Len(call.msgs) + 1)                        \* so d <= 200 fits the i16 accumulator
  /\ (~call.jones /\ ~call.deg1 /\ Abs(tot) <= 127 => r.ret = tot)  \* the exact sum when nothing saturates
\* layered rule == flooding rule on the extrinsics (old messages 0: extrinsic = variable LLR)
LayerThm == call.f = "check" =>
  LET d == Len(call.ins)
      dests == [i \in 1..d |-> i - 1]
      olds == [i \in 1..d |-> 0]
      r == Layer8(call.kind, call.phl, dests, olds, call.ins) IN
  /\ r.new = Check8(call.kind, call.ins, call.phl)
  /\ \A i \in 1..d : r.vars[i] = call.ins[i] + r.new[i]
=============================================================================
