------------------------------- MODULE MinSum -------------------------------
(***************************************************************************)
(* Exact integer min-sum: the arithmetic TLC instantiates BP with, and the *)
(* checker-supplied arithmetic the harness plugs into the real generic     *)
(* decoders (harness/src/intminsum.rs implements exactly these rules).     *)
(***************************************************************************)
EXTENDS Integers, Sequences, FiniteSets

Abs(x) == IF x < 0 THEN -x ELSE x
MinOfSet(S) == CHOOSE x \in S : \A y \in S : x <= y
BigMag == 1000
MSQuant(x) == x
MSHard(x) == x <= 0
MSCheckMsg(ins, i) ==
  LET others == { j \in 1..Len(ins) : j # i }
      neg == Cardinality({ j \in others : ins[j] < 0 })
      mag == IF others = {} THEN BigMag ELSE MinOfSet({ Abs(ins[j]) : j \in others })   \* a check of degree one says: this bit is 0
  IN IF neg % 2 = 1 THEN -mag ELSE mag
RECURSIVE SumSeq(_, _)
SumSeq(s, k) == IF k = 0 THEN 0 ELSE SumSeq(s, k - 1) + s[k]
MSVarTotal(llr, ins) == llr + SumSeq(ins, Len(ins))
MSVarMsg(total, in) == total - in
MSToMsg(x) == x
=============================================================================
