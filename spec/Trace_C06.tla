----------------------------- MODULE Trace_C06 -----------------------------
(***************************************************************************)
(* C06: one event per DVB-S2 code carrying the REAL matrix.                *)
(*  Dvb {code, rows, cols, full, base, groups, par, par_sample, ones,      *)
(*       par_weights_ok, enc, sha, pin, cyc6}                              *)
(*   base[g+1]   : rows of the first column of group g (insertion order)   *)
(*   groups      : {g, cols} the 360 columns of a group (all groups when   *)
(*                 full, a sample otherwise)                               *)
(*   par         : every parity column (sorted rows) when full             *)
(*   par_sample  : <<p, rows>> samples of the parity part otherwise        *)
(*   enc         : Encoder::from_h + encodings under a stopwatch (oracle:  *)
(*                 syndrome / prefix by sparse product)                    *)
(*   cyc6        : for R1_2 a 6-cycle <<c1,r1,c2,r2,c3,r3>> found by the   *)
(*                 harness; TLC verifies every edge from the base          *)
(*                 addresses through the construction law                  *)
(***************************************************************************)
EXTENDS TraceKit, QcCode

VARIABLES l
vars == <<l>>

BaseSets(ev) == [g \in 1..Len(ev.base) |-> SeqToSet(ev.base[g])]
\* rows of column c (0-based) according to the law, from the observed base addresses
LawCol(ev, c, k, q, m) == IF c < k THEN InfoCol(SeqToSet(ev.base[(c \div L) + 1]), c % L, q, m) ELSE ParityCol(c - k, m)

GroupOK(ev, grp, q, m) ==
  /\ Len(grp.cols) = L
  /\ grp.cols[1] = ev.base[grp.g + 1]
  /\ \A t \in 0..L-1 : NoDupSeq(grp.cols[t + 1])
                        /\ SeqToSet(grp.cols[t + 1]) = InfoCol(SeqToSet(ev.base[grp.g + 1]), t, q, m)     \* the quasi-cyclic law

ProfileOK(ev, c) ==
  LET degs == { Len(ev.base[g]) : g \in 1..Len(ev.base) } IN
  { <<d, L * Cardinality({ g \in 1..Len(ev.base) : Len(ev.base[g]) = d })>> : d \in degs } = Table[c].prof

Cyc6OK(ev, k, q, m) ==
  LET w == ev.cyc6 IN
  /\ Len(w) = 6 /\ w[1] # w[3] /\ w[3] # w[5] /\ w[1] # w[5] /\ w[2] # w[4] /\ w[4] # w[6] /\ w[2] # w[6]
  /\ w[2] \in LawCol(ev, w[1], k, q, m) /\ w[2] \in LawCol(ev, w[3], k, q, m)
  /\ w[4] \in LawCol(ev, w[3], k, q, m) /\ w[4] \in LawCol(ev, w[5], k, q, m)
  /\ w[6] \in LawCol(ev, w[5], k, q, m) /\ w[6] \in LawCol(ev, w[1], k, q, m)

DvbOK(ev) ==
  /\ ev.o = "ok" /\ ev.code \in CodeNames
  /\ LET c == ev.code  n == Table[c].n  k == Table[c].k  m == M(c)  q == Q(c) IN
     /\ ev.cols = n /\ ev.rows = m                                           \* the standard's dimensions
     /\ Len(ev.base) = k \div L
     /\ \A g \in 1..Len(ev.base) : NoDupSeq(ev.base[g]) /\ \A t \in 1..Len(ev.base[g]) : ev.base[g][t] \in 0..m-1
     /\ (ev.full => Len(ev.groups) = k \div L)
     /\ \A j \in 1..Len(ev.groups) : GroupOK(ev, ev.groups[j], q, m)
     /\ ProfileOK(ev, c)                                                      \* the standard's column-degree profile
     /\ (ev.full => Len(ev.par) = m /\ \A p \in 0..m-1 : SeqToSet(ev.par[p + 1]) = ParityCol(p, m))   \* dual diagonal
     /\ \A j \in 1..Len(ev.par_sample) : SeqToSet(ev.par_sample[j][2]) = ParityCol(ev.par_sample[j][1], m)
     /\ ev.par_weights_ok
     /\ ev.ones = L * (LET RECURSIVE S(_) S(g) == IF g = 0 THEN 0 ELSE S(g - 1) + Len(ev.base[g]) IN S(Len(ev.base))) + 2 * m - 1
     /\ NoFourCycle(BaseSets(ev), q, m)                                       \* no cycle of length 4
     /\ ev.enc.acc /\ ev.enc.syn_ok /\ ev.enc.prefix_ok /\ ev.enc.ms <= 20000  \* accepted by the encoder, in linear time
     /\ ev.sha = ev.pin                                                       \* equals the pinned reference matrix
     /\ (c = "R1_2" => Cyc6OK(ev, k, q, m))                                   \* girth 6 = no 4-cycle + this 6-cycle

EvOK(ev) == CASE ev.e = "Dvb" -> DvbOK(ev) [] OTHER -> FALSE

Init == l = 1
Step == /\ l <= NRec
        /\ IF EvOK(Rec[l]) THEN l' = l + 1 ELSE Reject(l, "C06") /\ l' = Rec[l].nx
Fin  == l = NRec + 1 /\ Done(l) /\ l' = l + 1
Next == Step \/ Fin
=============================================================================
