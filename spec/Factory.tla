------------------------------ MODULE Factory ------------------------------
(***************************************************************************)
(* src/decoder/factory.rs (C18): the 36 implementation names.  A name is   *)
(* modelled as the pair <<hl, arith>>: hl = the string starts with "HL",   *)
(* arith = the rest of the string (TLC cannot index into strings, so the   *)
(* harness performs exactly this split and nothing else).  The documented  *)
(* meaning: hl <=> horizontal-layered schedule, otherwise flooding; arith  *)
(* names the arithmetic type.                                              *)
(***************************************************************************)
EXTENDS Naturals, Sequences, FiniteSets

FloatAriths == {"Phif64", "Phif32", "Tanhf64", "Tanhf32", "Minstarapproxf64", "Minstarapproxf32", "Aminstarf64", "Aminstarf32"}
Suffixes == {"", "Jones", "PartialHardLimit", "JonesPartialHardLimit", "Deg1Clip", "JonesDeg1Clip",
             "PartialHardLimitDeg1Clip", "JonesPartialHardLimitDeg1Clip"}
I8Ariths == { "Minstarapproxi8" \o s : s \in Suffixes } \cup { "Aminstari8" \o s : s \in Suffixes }
Arithmetics == FloatAriths \cup I8Ariths                                   \* the 24 arithmetic types
\* documented layered implementations: all float rules, and the plain / partial-hard-limit 8-bit rules
LayeredAriths == FloatAriths \cup {"Minstarapproxi8", "Minstarapproxi8PartialHardLimit", "Aminstari8", "Aminstari8PartialHardLimit"}

Documented == { <<FALSE, a>> : a \in Arithmetics } \cup { <<TRUE, a>> : a \in LayeredAriths }
NameOf(p) == IF p[1] THEN "HL" \o p[2] ELSE p[2]
Names == { NameOf(p) : p \in Documented }
SchedOf(p) == IF p[1] THEN "layered" ELSE "flooding"

ASSUME Cardinality(Arithmetics) = 24
ASSUME Cardinality(Documented) = 36 /\ Cardinality(Names) = 36          \* NameOf is injective on Documented
ASSUME \A a \in Arithmetics : ~(\E b \in Arithmetics : a = "HL" \o b)    \* no arithmetic name itself starts with HL
=============================================================================
