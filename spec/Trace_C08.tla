----------------------------- MODULE Trace_C08 -----------------------------
(***************************************************************************)
(* C08: the real alist writer and parser judged by Alist.tla.              *)
(*  Write {nr, nc, cols, padded, lines, trail, pv, pnr, pnc, pcols}        *)
(*     cols  : the matrix, column j as a list of 0-based rows              *)
(*     lines : the writer's output, tokenised (see Alist.tla for tokens)   *)
(*     trail : the text ends with a newline and has no other empty tail    *)
(*     p*    : result of from_alist on that very text                      *)
(*  Parse {lines, pv, pnr, pnc, pcols}   an arbitrary text through         *)
(*     from_alist ("ok" | "err"); the parser must be total, and must       *)
(*     return M for every text that is a ValidAlist of M.                  *)
(***************************************************************************)
EXTENDS TraceKit, Alist

VARIABLES l
vars == <<l>>

Mat(nr, nc, cols) == [nr |-> nr, nc |-> nc, cols |-> [j \in 1..nc |-> SeqToSet(cols[j])]]

WriteOK(ev) ==
  /\ ev.o = "ok" /\ Len(ev.cols) = ev.nc
  /\ LET M == Mat(ev.nr, ev.nc, ev.cols) IN
     /\ WriteConforms(ev.lines, M, ev.padded)
     /\ ev.trail
     /\ ev.pv = "ok" /\ ev.pnr = ev.nr /\ ev.pnc = ev.nc /\ Len(ev.pcols) = ev.nc
     /\ Mat(ev.pnr, ev.pnc, ev.pcols) = M

\* whatever text was accepted, what comes back is a MATRIX: no index twice in a column or row list, indices inside the dimensions,
\* row and column views of the same set of ones
NoDup(s) == \A a, b \in 1..Len(s) : s[a] = s[b] => a = b
WellFormed(ev) ==
  /\ Len(ev.pcols) = ev.pnc /\ Len(ev.prows) = ev.pnr
  /\ \A c \in 1..ev.pnc : NoDup(ev.pcols[c]) /\ \A t \in 1..Len(ev.pcols[c]) : ev.pcols[c][t] \in 0..ev.pnr - 1
  /\ \A r \in 1..ev.pnr : NoDup(ev.prows[r]) /\ \A t \in 1..Len(ev.prows[r]) : ev.prows[r][t] \in 0..ev.pnc - 1
  /\ \A c \in 1..ev.pnc : \A t \in 1..Len(ev.pcols[c]) : \E u \in 1..Len(ev.prows[ev.pcols[c][t] + 1]) : ev.prows[ev.pcols[c][t] + 1][u] = c - 1
  /\ \A r \in 1..ev.pnr : \A t \in 1..Len(ev.prows[r]) : \E u \in 1..Len(ev.pcols[ev.prows[r][t] + 1]) : ev.pcols[ev.prows[r][t] + 1][u] = r - 1
ParseOK(ev) ==
  /\ ev.o = "ok" /\ ev.pv \in {"ok", "err"}                 \* total: a matrix or an error message
  /\ (ev.pv = "ok" => WellFormed(ev))
  /\ LET p == Parse(ev.lines) IN
     (p.res = "ok" /\ ValidAlist(ev.lines, ParsedMatrix(p))) =>
        /\ ev.pv = "ok" /\ ev.pnr = p.nr /\ ev.pnc = p.nc /\ Len(ev.pcols) = p.nc
        /\ Mat(ev.pnr, ev.pnc, ev.pcols) = ParsedMatrix(p)

OK(ev) == CASE ev.e = "Write" -> WriteOK(ev) [] ev.e = "Parse" -> ParseOK(ev) [] OTHER -> FALSE

Init == l = 1
Step == /\ l <= NRec
        /\ IF OK(Rec[l]) THEN l' = l + 1 ELSE Reject(l, "C08") /\ l' = Rec[l].nx
Fin  == l = NRec + 1 /\ Done(l) /\ l' = l + 1
Next == Step \/ Fin
=============================================================================
