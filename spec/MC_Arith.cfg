CONSTANTS Lat <- LatQ MaxDeg = 3
INIT Init
NEXT Next
INVARIANTS CheckThm VarThm LayerThm
CHECK_DEADLOCK FALSE
