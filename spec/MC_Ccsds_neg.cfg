CONSTANTS N = 3 InsertOnly = TRUE
INIT Init
NEXT Next
INVARIANTS ToggleIsGf2Sum
CHECK_DEADLOCK FALSE
