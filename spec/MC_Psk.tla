------------------------------- MODULE MC_Psk -------------------------------
(* Design level: the ASSUMEs of Psk.tla (bijection, Gray, balanced partitions) are evaluated at startup; the states *)
(* enumerate every bit sequence of length 3, 6, 9 and check that hard decisions on the nearest index return the bits *)
EXTENDS Psk, TLC
VARIABLE bits
Init == \E n \in {3, 6, 9} : bits \in [1..n -> {0, 1}]
Next == UNCHANGED bits
\* the nearest constellation point to a noiseless point is itself; its label gives back the bits
RoundTrip == LET pts == Points8(bits) IN
             \A t \in 1..Len(pts) : <<bits[3*t - 2], bits[3*t - 1], bits[3*t]>> = LabelOf(pts[t])
=============================================================================
