----------------------------- MODULE SparseSet -----------------------------
(***************************************************************************)
(* Property-level meaning of a sparse binary matrix (C17): a set T of      *)
(* positions <<row, column>> (0-based) and the ten editing operations of   *)
(* src/sparse.rs as set operations.  No constants, no variables: used by   *)
(* Sparse.tla (refinement target) and by Trace_C17 (judging the real code) *)
(***************************************************************************)
EXTENDS Naturals, Sequences, FiniteSets

(* The same operations on a set of positions: the property-level meaning.  *)
(* (Also used, alone, by Trace_C17 to judge the real code.)                *)

InsertS(T, r, c)  == T \cup {<<r, c>>}
RemoveS(T, r, c)  == T \ {<<r, c>>}
ToggleS(T, r, c)  == IF <<r, c>> \in T THEN T \ {<<r, c>>} ELSE T \cup {<<r, c>>}
InsertRowS(T, r, cs) == T \cup { <<r, cs[k]>> : k \in 1..Len(cs) }
InsertColS(T, c, rs) == T \cup { <<rs[k], c>> : k \in 1..Len(rs) }
ClearRowS(T, r)   == { p \in T : p[1] # r }
ClearColS(T, c)   == { p \in T : p[2] # c }
SetRowS(T, r, cs) == InsertRowS(ClearRowS(T, r), r, cs)
SetColS(T, c, rs) == InsertColS(ClearColS(T, c), c, rs)

RowWeightS(T, r)  == Cardinality({ p \in T : p[1] = r })
ColWeightS(T, c)  == Cardinality({ p \in T : p[2] = c })
RowOfS(T, r)      == { p[2] : p \in { q \in T : q[1] = r } }
ColOfS(T, c)      == { p[1] : p \in { q \in T : q[2] = c } }

=============================================================================
