------------------------------- MODULE Alist -------------------------------
(***************************************************************************)
(* The alist text format of src/sparse.rs (C08): token-level writer        *)
(* (padded / unpadded), validity of a text for a matrix, and the           *)
(* line-oriented parser of from_alist as a state machine.                  *)
(*                                                                         *)
(* A text is a sequence of lines, a line a sequence of tokens, a token an  *)
(* integer: its value when it consists of ASCII digits, -1 for any other   *)
(* token (not a number), -2 for a digit string too long for 31 bits.       *)
(* A matrix is M = [nr, nc, cols] with cols[j+1] the SET of 0-based rows   *)
(* of column j (property level: a set of positions with dimensions).       *)
(***************************************************************************)
EXTENDS Integers, Sequences, FiniteSets

CONSTANT SaturatingPad  \* TRUE: padding count saturates at 0 (repaired); FALSE: as found, `dirlen - max(vlen,1)' underflows (D1)
CONSTANT RangeCheck     \* TRUE: out-of-range row index -> Err (repaired); FALSE: as found (index panic, D2)

MaxOfSet(S) == IF S = {} THEN 0 ELSE CHOOSE x \in S : \A y \in S : x >= y
RECURSIVE Ascending(_)
Ascending(S) == IF S = {} THEN <<>> ELSE LET x == CHOOSE y \in S : \A z \in S : y <= z IN <<x>> \o Ascending(S \ {x})
Rep(x, k) == [t \in 1..k |-> x]

RowsOf(M)   == [i \in 1..M.nr |-> { j \in 0..M.nc-1 : (i - 1) \in M.cols[j + 1] }]
ColW(M)     == [j \in 1..M.nc |-> Cardinality(M.cols[j])]
RowW(M)     == [i \in 1..M.nr |-> Cardinality(RowsOf(M)[i])]
MaxColW(M)  == MaxOfSet({ ColW(M)[j] : j \in 1..M.nc })
MaxRowW(M)  == MaxOfSet({ RowW(M)[i] : i \in 1..M.nr })

-----------------------------------------------------------------------------
(* Writer.  PadAllZeroOne: what a padded EMPTY list looks like when the maximum weight is 0   *)
(* (the format does not say): the repaired code writes a single 0.                           *)
ListLine(S, maxw, padded) ==
  LET idx == [t \in 1..Cardinality(S) |-> Ascending(S)[t] + 1] IN
  IF ~padded THEN idx
  ELSE IF S = {} THEN <<0>> \o Rep(0, IF maxw >= 1 THEN maxw - 1 ELSE 0)
  ELSE idx \o Rep(0, maxw - Cardinality(S))

\* the padding count the code computes for one list; negative = usize underflow (panic / unbounded loop)
PadCount(maxw, vlen) == maxw - (IF vlen >= 1 THEN vlen ELSE 1)
WritePanics(M, padded) ==
  /\ ~SaturatingPad /\ padded
  /\ \/ \E j \in 1..M.nc : PadCount(MaxColW(M), ColW(M)[j]) < 0
     \/ \E i \in 1..M.nr : PadCount(MaxRowW(M), RowW(M)[i]) < 0

Write(M, padded) ==
  << <<M.nc, M.nr>>, <<MaxColW(M), MaxRowW(M)>>, ColW(M), RowW(M) >>
  \o [j \in 1..M.nc |-> ListLine(M.cols[j], MaxColW(M), padded)]
  \o [i \in 1..M.nr |-> ListLine(RowsOf(M)[i], MaxRowW(M), padded)]

\* property-level conformance of an OBSERVED token text to the format for M: the all-zero
\* padded case may write an empty line or a single 0
LineConforms(line, S, maxw, padded) ==
  \/ line = ListLine(S, maxw, padded)
  \/ padded /\ S = {} /\ maxw = 0 /\ line = <<>>
WriteConforms(lines, M, padded) ==
  /\ Len(lines) = 4 + M.nc + M.nr
  /\ lines[1] = <<M.nc, M.nr>> /\ lines[2] = <<MaxColW(M), MaxRowW(M)>>
  /\ lines[3] = ColW(M) /\ lines[4] = RowW(M)
  /\ \A j \in 1..M.nc : LineConforms(lines[4 + j], M.cols[j], MaxColW(M), padded)
  /\ \A i \in 1..M.nr : LineConforms(lines[4 + M.nc + i], RowsOf(M)[i], MaxRowW(M), padded)

\* A text is a valid alist of M (padded, unpadded or mixed; the row section is not consulted)
ValidAlist(lines, M) ==
  /\ Len(lines) >= 4 + M.nc
  /\ Len(lines[1]) >= 2 /\ lines[1][1] = M.nc /\ lines[1][2] = M.nr
  /\ \A j \in 1..M.nc :
       LET ln == lines[4 + j] IN
       /\ \A t \in 1..Len(ln) : ln[t] >= 0 /\ ln[t] <= M.nr
       /\ { ln[t] - 1 : t \in { u \in 1..Len(ln) : ln[u] # 0 } } = M.cols[j]

-----------------------------------------------------------------------------
(* Parser (from_alist) as a state machine over lines.                      *)
(* state: [pc, pos, col, nr, nc, cols, res]                                *)
(*   pc: "hdr" | "cols" | "done";  res: "" | "ok" | "err" | "panic"        *)
ParseInit == [pc |-> "hdr", pos |-> 1, col |-> 0, nr |-> 0, nc |-> 0, cols |-> <<>>, res |-> ""]

Finish(s, r) == [s EXCEPT !.pc = "done", !.res = r]

\* one line of tokens folded into the current column: returns <<status, set>>
RECURSIVE FoldTokens(_, _, _, _)
FoldTokens(ln, t, nr, acc) ==
  IF t > Len(ln) THEN <<"ok", acc>>
  ELSE IF ln[t] < 0 THEN <<"err", acc>>                        \* "row value is not a number"
  ELSE IF ln[t] = 0 THEN FoldTokens(ln, t + 1, nr, acc)        \* padding
  ELSE IF ln[t] > nr THEN <<IF RangeCheck THEN "err" ELSE "panic", acc>>   \* h.insert(row - 1, col) out of range
  ELSE FoldTokens(ln, t + 1, nr, acc \cup {ln[t] - 1})

ParseStep(lines, s) ==
  IF s.pc = "hdr" THEN
     \* text.split('\n') always yields at least one piece; a missing/short/non-numeric header is an error
     IF Len(lines) = 0 \/ Len(lines[1]) < 2 \/ lines[1][1] < 0 \/ lines[1][2] < 0 THEN Finish(s, "err")
     ELSE [s EXCEPT !.pc = "cols", !.pos = 5, !.nc = lines[1][1], !.nr = lines[1][2],   \* three lines skipped, present or not
                    !.cols = [j \in 1..lines[1][1] |-> {}]]
  ELSE IF s.pc = "cols" THEN
     IF s.col = s.nc THEN Finish(s, "ok")
     ELSE IF s.pos > Len(lines) THEN Finish(s, "err")          \* "alist does not contain expected number of lines"
     ELSE LET f == FoldTokens(lines[s.pos], 1, s.nr, {}) IN
          IF f[1] # "ok" THEN Finish(s, f[1])
          ELSE [s EXCEPT !.pos = @ + 1, !.col = @ + 1, !.cols[s.col + 1] = f[2]]
  ELSE s

RECURSIVE ParseRun(_, _)
ParseRun(lines, s) == IF s.pc = "done" THEN s ELSE ParseRun(lines, ParseStep(lines, s))
Parse(lines) == ParseRun(lines, ParseInit)
ParsedMatrix(s) == [nr |-> s.nr, nc |-> s.nc, cols |-> s.cols]
=============================================================================
