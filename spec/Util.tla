-------------------------------- MODULE Util --------------------------------
(***************************************************************************)
(* src/util.rs: the random selections the pseudorandom constructions are   *)
(* built on (C16).  An input vector is abstracted to the sequence `keys' of *)
(* the ranks of its items under the comparator (a total preorder, so        *)
(* integers); an item is identified by its index 1..Len(keys).             *)
(*                                                                         *)
(*   sort_by_random_sel(n)   None iff fewer than n items; otherwise n      *)
(*       DISTINCT items such that no item left out is strictly smaller     *)
(*       than a selected one (SelLegal) - "n smallest, ties broken only at *)
(*       the cut".                                                         *)
(*   sort_by_random_min()    None iff empty; otherwise a minimal item.     *)
(*   compare_some(x, y)      Option ordering with None GREATEST.           *)
(*                                                                         *)
(* The second half transcribes the algorithm (sort; `sure' = everything    *)
(* strictly below the element at position n; `additional' = a random       *)
(* subset of the run equal to it) as the SET of its possible outcomes;     *)
(* MC_Util checks that this set is exactly the set of legal selections.    *)
(***************************************************************************)
EXTENDS Naturals, Integers, Sequences, FiniteSets

Idx(keys) == 1..Len(keys)
None == -1               \* encoding of Option::None in traces (keys and indices are >= 0 there)

SelLegal(keys, n, sel) ==
  /\ sel \subseteq Idx(keys)
  /\ Cardinality(sel) = n
  /\ \A i \in sel : \A j \in Idx(keys) \ sel : keys[i] <= keys[j]
MinLegal(keys, r) == r \in Idx(keys) /\ \A j \in Idx(keys) : keys[r] <= keys[j]

\* none: Option::None was returned; res: the sequence of the selected indices in the order returned (<<>> with none)
SelResultOK(keys, n, none, res) ==
  IF Len(keys) < n THEN none
  ELSE /\ ~none
       /\ Len(res) = n
       /\ \A a, b \in 1..Len(res) : res[a] = res[b] => a = b
       /\ SelLegal(keys, n, { res[t] : t \in 1..Len(res) })
MinResultOK(keys, r) == IF Len(keys) = 0 THEN r = None ELSE r # None /\ MinLegal(keys, r)

\* Ordering as -1 / 0 / 1; x, y are None or naturals
Sign(a, b) == IF a < b THEN -1 ELSE IF a = b THEN 0 ELSE 1
CompareSome(x, y) == IF x = None /\ y = None THEN 0
                     ELSE IF x = None THEN 1 ELSE IF y = None THEN -1 ELSE Sign(x, y)

------------------------------------------------------------------------------
\* the algorithm as the set of its outcomes
KeySet(keys) == { keys[i] : i \in Idx(keys) }
Below(keys, c)  == { i \in Idx(keys) : keys[i] < c }
UpTo(keys, c)   == { i \in Idx(keys) : keys[i] <= c }
\* the key found at position n (1-based) of ANY sorted arrangement
CutKey(keys, n) == CHOOSE c \in KeySet(keys) : Cardinality(Below(keys, c)) < n /\ Cardinality(UpTo(keys, c)) >= n
\* noTieCut: seeded flaw for the negative configuration (`additional' drawn from everything after `sure')
SelOutcomesF(keys, n, noTieCut) ==
  IF n = 0 THEN {{}}
  ELSE LET c    == CutKey(keys, n)
           sure == Below(keys, c)
           pool == IF noTieCut THEN Idx(keys) \ sure ELSE UpTo(keys, c) \ sure
       IN { sure \cup t : t \in { t \in SUBSET pool : Cardinality(t) = n - Cardinality(sure) } }
SelOutcomes(keys, n) == SelOutcomesF(keys, n, FALSE)
MinOutcomes(keys) == { i \in Idx(keys) : \A j \in Idx(keys) : keys[i] <= keys[j] }
=============================================================================
