------------------------------ MODULE MC_Chain ------------------------------
(***************************************************************************)
(* Design-level checks of Chain.tla: every (C, R, direction) up to MaxC x   *)
(* MaxR, every pattern up to MaxP with a TRUE, block sizes up to MaxB.      *)
(***************************************************************************)
EXTENDS Chain, TLC
CONSTANTS MaxC, MaxR, MaxP, MaxB, WrongInverseOrder
VARIABLES cfg
vars == <<cfg>>
Patterns == UNION { { p \in [1..k -> BOOLEAN] : \E t \in 1..k : p[t] } : k \in 1..MaxP }
Init == \/ \E C \in 1..MaxC, R \in 1..MaxR, back \in BOOLEAN : cfg = [t |-> "il", C |-> C, R |-> R, back |-> back]
        \/ \E P \in Patterns, b \in 1..MaxB : cfg = [t |-> "pu", P |-> P, b |-> b]
        \/ \E P \in Patterns, b \in 1..MaxB, C \in 1..MaxC, back \in BOOLEAN, up \in BOOLEAN, ui \in BOOLEAN :
              cfg = [t |-> "chain", P |-> P, b |-> b, C |-> C, back |-> back, up |-> up, ui |-> ui]
Next == UNCHANGED cfg
Tags(n) == [i \in 1..n |-> i]
IsPerm(y, n) == Len(y) = n /\ { y[k] : k \in 1..n } = 1..n

IlInv == cfg.t = "il" =>
  LET n == cfg.C * cfg.R  x == Tags(n)  y == Interleave(x, cfg.C, cfg.back) IN
  /\ IsPerm(y, n)
  /\ Deinterleave(y, cfg.C, cfg.back) = x                                        \* exact inverse
  /\ \A r \in 0..cfg.R-1, c \in 0..cfg.C-1 :                                     \* the statement's formula
        y[r * cfg.C + c + 1] = x[(IF cfg.back THEN cfg.C - 1 - c ELSE c) * cfg.R + r + 1]
PuInv == cfg.t = "pu" =>
  LET n == cfg.b * Len(cfg.P)  x == Tags(n)  y == Puncture(x, cfg.P) IN
  /\ Len(y) = cfg.b * Trues(cfg.P)
  /\ \A j \in 1..Len(y) - 1 : y[j] < y[j + 1]                                    \* in order
  /\ { y[j] : j \in 1..Len(y) } = { i \in 1..n : cfg.P[((i - 1) \div cfg.b) + 1] }   \* exactly the TRUE blocks
  /\ Depuncture(y, cfg.P) = Delivered(n, cfg.P, TRUE)
  /\ PunctureFits(n, cfg.P) /\ DepunctureFits(Len(y), cfg.P)
\* C12: puncturing, interleaving and their inverses cancel exactly whenever the sizes fit
ChainInv == cfg.t = "chain" =>
  LET n == cfg.b * Len(cfg.P)  x == Tags(n)
      m == IF cfg.up THEN cfg.b * Trues(cfg.P) ELSE n IN
  (~cfg.ui \/ m % cfg.C = 0) =>
     LET tx == Transmit(x, cfg.P, cfg.C, cfg.back, cfg.up, cfg.ui)
         rx == IF WrongInverseOrder /\ cfg.up /\ cfg.ui /\ (Len(cfg.P) * (m \div Trues(cfg.P))) % cfg.C = 0
               THEN Deinterleave(Depuncture(tx, cfg.P), cfg.C, cfg.back)      \* seeded flaw: inverses in the wrong order
               ELSE Receive(tx, cfg.P, cfg.C, cfg.back, cfg.up, cfg.ui) IN
     rx = Delivered(n, cfg.P, cfg.up)
=============================================================================
