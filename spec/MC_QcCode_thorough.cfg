CONSTANTS LL = 4 QQ = 2
INIT Init
NEXT Next
INVARIANTS Shifted Staircase Criterion
CHECK_DEADLOCK FALSE
