----------------------------- MODULE Trace_C09 -----------------------------
(***************************************************************************)
(* C09: observed results of parity_to_systematic judged by                 *)
(* Systematic!SysOK.  One event = one case:                                *)
(*  Sys {r, n, rows, v, res, enc_acc, cert}                                *)
(*   v    : "ok" | "notfullrank" | "overdetermined"                        *)
(*   res  : adjacency-list rows of the returned matrix (v = "ok")          *)
(*   enc_acc : Encoder::from_h accepted the returned matrix                *)
(*   cert : for r > BruteMax a witness: {kind:"inv", w: inverse of tail(R)}*)
(*          or {kind:"lker", w:[y]} with y H = 0, y # 0                    *)
(***************************************************************************)
EXTENDS TraceKit, Encoder

BruteMax == 7

VARIABLES l
vars == <<l>>

SysEvOK(ev) ==
  /\ ev.o = "ok" /\ ev.r >= 1 /\ ev.r <= ev.n /\ Len(ev.rows) = ev.r
  /\ LET H == Dense(ev.rows, ev.n) IN
     \/ /\ ev.v = "notfullrank"
        /\ IF ev.r <= BruteMax THEN ~FullRowRank(H)
           ELSE ev.cert.kind = "lker" /\ IsLeftKernelVec(H, ev.cert.w[1])
     \/ /\ ev.v = "ok" /\ Len(ev.res) = ev.r
        /\ LET R == Dense(ev.res, ev.n) IN
           /\ IsColumnPermutation(H, R)
           /\ IF ev.r <= BruteMax THEN Invertible(TailM(R)) /\ FullRowRank(H)
              ELSE ev.cert.kind = "inv" /\ IsInverse(TailM(R), ev.cert.w)     \* => H has full rank too
           /\ ev.enc_acc                                                       \* the encoder accepts the result

OK(ev) == CASE ev.e = "Sys" -> SysEvOK(ev) [] OTHER -> FALSE

Init == l = 1
Step == /\ l <= NRec
        /\ IF OK(Rec[l]) THEN l' = l + 1 ELSE Reject(l, "C09") /\ l' = Rec[l].nx
Fin  == l = NRec + 1 /\ Done(l) /\ l' = l + 1
Next == Step \/ Fin
=============================================================================
