------------------------------- MODULE MC_Cli -------------------------------
(* Design-level sanity of Cli.tla: the ASSUMEs (21 + 9 identifiers) are evaluated at startup; the states enumerate the valid argument sets *)
EXTENDS Cli, TLC
VARIABLE a
Init == \/ \E r \in DOMAIN NormalRates, s \in BOOLEAN : DvbValid(r, s) /\ a = <<"dvbs2", DvbCode(r, s)>>
        \/ \E r \in DOMAIN CcsdsRates, b \in CcsdsSizes : a = <<"ccsds", CcsdsCode(r, b)>>
Next == UNCHANGED a
Distinct == a[2] # ""
=============================================================================
