------------------------------- MODULE Chain -------------------------------
(***************************************************************************)
(* src/simulation/interleaving.rs, puncturing.rs and the frame pipeline of *)
(* src/simulation/ber.rs on TAGGED positions (C15, C12).                   *)
(* Sequences are 1-based; the statement's 0-based formula                  *)
(*     output[r*C + c] = input[c*R + r]   (columns reversed when reading   *)
(*     backwards)                                                          *)
(* is written with 0-based index arithmetic and +1 at the access.          *)
(* ZERO is the neutral value a depuncturer inserts.                        *)
(***************************************************************************)
EXTENDS Integers, Sequences, FiniteSets

ZERO == 0
F(s) == s \o <<>>

\* --- interleaver ------------------------------------------------------------------------------
InterleaveIdx(k, n, C, back) ==           \* 0-based source index of output position k
  LET R == n \div C  r == k \div C  c == k % C IN (IF back THEN C - 1 - c ELSE c) * R + r
Interleave(x, C, back) == F([k \in 1..Len(x) |-> x[InterleaveIdx(k - 1, Len(x), C, back) + 1]])
\* the inverse, defined independently: position of input element j in the interleaved stream
DeinterleaveIdx(j, n, C, back) ==         \* 0-based: where does deinterleaved position j come from
  LET R == n \div C  c == j \div R  r == j % R IN r * C + (IF back THEN C - 1 - c ELSE c)
Deinterleave(y, C, back) == F([j \in 1..Len(y) |-> y[DeinterleaveIdx(j - 1, Len(y), C, back) + 1]])

\* --- puncturer: pattern P = sequence of BOOLEAN, at least one TRUE --------------------------------
Trues(P) == Cardinality({ k \in 1..Len(P) : P[k] })
Kept(P) == LET RECURSIVE K(_) K(k) == IF k > Len(P) THEN <<>> ELSE (IF P[k] THEN <<k>> ELSE <<>>) \o K(k + 1) IN K(1)
PunctureFits(n, P) == n % Len(P) = 0
Puncture(x, P) ==                          \* keeps exactly the blocks marked TRUE, in order
  LET b == Len(x) \div Len(P)  kept == Kept(P) IN
  F([j \in 1..(b * Len(kept)) |-> x[(kept[((j - 1) \div b) + 1] - 1) * b + ((j - 1) % b) + 1]])
DepunctureFits(m, P) == m % Trues(P) = 0
Depuncture(y, P) ==                        \* puts them back, ZERO in the removed blocks
  LET b == Len(y) \div Trues(P)  kept == Kept(P) IN
  F([i \in 1..(b * Len(P)) |->
      LET blk == ((i - 1) \div b) + 1 IN
      IF P[blk] THEN y[(Cardinality({ k \in 1..blk : P[k] }) - 1) * b + ((i - 1) % b) + 1] ELSE ZERO])
\* rate = pattern length over kept blocks, as the pair <<numerator, denominator>>
Rate(P) == <<Len(P), Trues(P)>>

\* --- the BER frame pipeline on tags (C12): what the decoder must be handed -------------------------
\* codeword positions 1..n carry tag i; transmit = puncture then interleave; receive = deinterleave then depuncture
Transmit(x, P, C, back, usePunct, useIl) ==
  LET p == IF usePunct THEN Puncture(x, P) ELSE x IN IF useIl THEN Interleave(p, C, back) ELSE p
Receive(y, P, C, back, usePunct, useIl) ==
  LET d == IF useIl THEN Deinterleave(y, C, back) ELSE y IN IF usePunct THEN Depuncture(d, P) ELSE d
Delivered(n, P, usePunct) ==               \* tag i where kept, ZERO where punctured
  LET b == n \div Len(P) IN F([i \in 1..n |-> IF ~usePunct \/ P[((i - 1) \div b) + 1] THEN i ELSE ZERO])
=============================================================================
