----------------------------- MODULE Trace_C10 -----------------------------
(***************************************************************************)
(* C10: a history of decode calls on ONE decoder object.  Every call's     *)
(* result must equal the result of a freshly built decoder on the same     *)
(* arguments (recorded alongside), and equal arguments must give equal     *)
(* results throughout the history (functional consistency; `seen' is the   *)
(* spec's memory of key -> result).  The result must also satisfy C01Rel.  *)
(*  Call {impl, rows, n, step, key, limit, hard_in, res, fresh}            *)
(***************************************************************************)
EXTENDS TraceKit, DecodeRel

VARIABLES l, seen
vars == <<l, seen>>

Init == l = 1 /\ seen = <<>>          \* sequence of <<key, res>> of the current case

Lookup(k) == { p \in SeqToSet(seen) : p[1] = k }

CallOK(ev) ==
  /\ ev.o = "ok"
  /\ ev.res = ev.fresh                                               \* no state carried over
  /\ \A p \in Lookup(ev.key) : p[2] = ev.res                         \* same arguments, same result
  /\ C01Rel(ev.rows, ev.n, ev.hard_in, ev.limit, ev.res)

Step ==
  /\ l <= NRec
  /\ LET ev == Rec[l]
         first == l = 1 \/ Rec[l - 1].i # ev.i                      \* a new case: forget the previous object
         mem == IF first THEN <<>> ELSE seen IN
     IF ev.e = "Call" /\ ev.o = "ok" /\ ev.res = ev.fresh
        /\ (\A p \in { q \in SeqToSet(mem) : q[1] = ev.key } : p[2] = ev.res)
        /\ C01Rel(ev.rows, ev.n, ev.hard_in, ev.limit, ev.res)
     THEN l' = l + 1 /\ seen' = Append(mem, <<ev.key, ev.res>>)
     ELSE Reject(l, "C10") /\ l' = ev.nx /\ seen' = <<>>
Fin  == l = NRec + 1 /\ Done(l) /\ l' = l + 1 /\ UNCHANGED seen
Next == Step \/ Fin
=============================================================================
