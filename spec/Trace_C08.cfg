CONSTANTS RangeCheck = TRUE SaturatingPad = TRUE
INIT Init
NEXT Next
CHECK_DEADLOCK FALSE
