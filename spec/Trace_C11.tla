----------------------------- MODULE Trace_C11 -----------------------------
(***************************************************************************)
(* C11: observed results of bfs / girth / girth_with_max / girth_at_node / *)
(* girth_at_node_with_max judged by the declarative definitions of Tanner. *)
(*  Node  {nr, nc, rows, root, rd, cd, lg:[[max,res]..]}                   *)
(*        root: node id (row i -> i, column j -> nr+j); rd/cd: distances   *)
(*        of row / column nodes from bfs(root) (-1 = None); lg: local girth*)
(*        at root for several bounds (max = -1: unbounded; res = -1: None) *)
(*  Girth {nr, nc, rows, g:[[max,res]..]}                                  *)
(***************************************************************************)
EXTENDS TraceKit, Tanner

VARIABLES l
vars == <<l>>

NodeOK(ev) ==
  /\ ev.o = "ok" /\ Len(ev.rows) = ev.nr /\ Len(ev.rd) = ev.nr /\ Len(ev.cd) = ev.nc
  /\ LET adj == Adj(ev.rows, ev.nr, ev.nc)
         d   == DistFrom(adj, ev.root)
         lgv == LocalGirth(adj, ev.root)
     IN /\ \A i \in 0..ev.nr-1 : ev.rd[i + 1] = d[i]
        /\ \A j \in 0..ev.nc-1 : ev.cd[j + 1] = d[ev.nr + j]
        /\ \A t \in 1..Len(ev.lg) : ev.lg[t][2] = Bounded(lgv, ev.lg[t][1])

GirthOK(ev) ==
  /\ ev.o = "ok" /\ Len(ev.rows) = ev.nr
  /\ LET g == Girth(Adj(ev.rows, ev.nr, ev.nc)) IN
     \A t \in 1..Len(ev.g) : ev.g[t][2] = Bounded(g, ev.g[t][1])

OK(ev) == CASE ev.e = "Node" -> NodeOK(ev) [] ev.e = "Girth" -> GirthOK(ev) [] OTHER -> FALSE

Init == l = 1
Step == /\ l <= NRec
        /\ IF OK(Rec[l]) THEN l' = l + 1 ELSE Reject(l, "C11") /\ l' = Rec[l].nx
Fin  == l = NRec + 1 /\ Done(l) /\ l' = l + 1
Next == Step \/ Fin
=============================================================================
