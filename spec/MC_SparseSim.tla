---------------------------- MODULE MC_SparseSim ----------------------------
(* spec -> impl: simulated behaviours of Sparse.tla printed as replayable cases.     *)
(* Run with `tlc -simulate`; parameters are drawn with RandomElement inside each     *)
(* disjunct so a step has 9 successors instead of ~500.  The behaviour is printed by *)
(* the action Finish, which TLC evaluates only on the state it actually reached.     *)
EXTENDS Sparse, TLC, Json
CONSTANT Depth
VARIABLES h, done     \* history of operations (sequence of records); printed flag
Op(name, r, c, idx) == [op |-> name, r |-> r, c |-> c, idx |-> idx]
InitS == Init /\ h = <<>> /\ done = FALSE
Step ==
  /\ Len(h) < Depth /\ UNCHANGED done
  /\ LET r  == RandomElement(RowIdx)
         c  == RandomElement(ColIdx)
         cs == RandomElement(BulkSeqs(ColIdx))
         rs == RandomElement(BulkSeqs(RowIdx))
     IN \/ Insert(r, c)     /\ h' = Append(h, Op("insert", r, c, <<>>))
        \/ Remove(r, c)     /\ h' = Append(h, Op("remove", r, c, <<>>))
        \/ Toggle(r, c)     /\ h' = Append(h, Op("toggle", r, c, <<>>))
        \/ ClearRow(r)      /\ h' = Append(h, Op("clear_row", r, 0, <<>>))
        \/ InsertRow(r, cs) /\ h' = Append(h, Op("insert_row", r, 0, cs))
        \/ SetRow(r, cs)    /\ h' = Append(h, Op("set_row", r, 0, cs))
        \/ ClearCol(c)      /\ h' = Append(h, Op("clear_col", 0, c, <<>>))
        \/ InsertCol(c, rs) /\ h' = Append(h, Op("insert_col", 0, c, rs))
        \/ SetCol(c, rs)    /\ h' = Append(h, Op("set_col", 0, c, rs))
Finish == /\ Len(h) = Depth /\ ~done /\ done' = TRUE /\ UNCHANGED <<vars, h>>
          /\ PrintT(<<"CASE", ToJson([nr |-> NR, nc |-> NC, ops |-> h])>>)
NextS == Step \/ Finish
=============================================================================
