------------------------------ MODULE BfsAlgo ------------------------------
(***************************************************************************)
(* src/sparse/bfs.rs, implementation-shaped: the FIFO of path heads        *)
(* (node, parent, path length [, first hop]), the distance labels, and the *)
(* two loops bfs() and local_girth(max).  One call of PopBfs / PopLocal    *)
(* processes one popped head (the body of the `while let' loop).           *)
(*                                                                         *)
(* TrackBranch = FALSE is the code as found: local_girth returns at the    *)
(* FIRST collision with a labelled node, even when both paths leave the    *)
(* root through the same neighbour, which is not a cycle through the root  *)
(* (defect D3).  TrackBranch = TRUE carries the first hop in each head and *)
(* label, and only a collision between different first hops counts.        *)
(***************************************************************************)
EXTENDS Tanner

CONSTANT TrackBranch

PHead(node, parent, len, br) == [node |-> node, parent |-> parent, len |-> len, br |-> br]

\* neighbours in a fixed iteration order (ascending); the parent is skipped
RECURSIVE SetToSeq(_)
SetToSeq(S) == IF S = {} THEN <<>> ELSE LET x == MinOf(S) IN <<x>> \o SetToSeq(S \ {x})
NextHeads(adj, h) ==
  LET ns == SetToSeq(adj[h.node] \ (IF h.parent = -1 THEN {} ELSE {h.parent})) IN
  [t \in 1..Len(ns) |-> PHead(ns[t], h.node, h.len + 1, IF h.parent = -1 THEN ns[t] ELSE h.br)]

InitQueue(root) == << PHead(root, -1, 0, -1) >>
InitDist(adj, root) == [v \in DOMAIN adj |-> IF v = root THEN 0 ELSE -1]
InitBranch(adj) == [v \in DOMAIN adj |-> -1]

\* --- bfs(): process all next heads of one popped head --------------------------------
RECURSIVE BfsVisit(_, _, _, _)
BfsVisit(nh, t, dist, q) ==
  IF t > Len(nh) THEN <<dist, q>>
  ELSE IF dist[nh[t].node] = -1
       THEN BfsVisit(nh, t + 1, [dist EXCEPT ![nh[t].node] = nh[t].len], Append(q, nh[t]))
       ELSE BfsVisit(nh, t + 1, dist, q)
PopBfs(adj, dist, q) == BfsVisit(NextHeads(adj, q[1]), 1, dist, Tail(q))   \* <<dist', q'>>

RECURSIVE BfsRun(_, _, _)
BfsRun(adj, dist, q) == IF q = <<>> THEN dist ELSE LET s == PopBfs(adj, dist, q) IN BfsRun(adj, s[1], s[2])
Bfs(adj, root) == BfsRun(adj, InitDist(adj, root), InitQueue(root))

\* --- local_girth(max): max = -1 means usize::MAX -----------------------------------
Lt(a, max) == max = -1 \/ a < max
Le(a, max) == max = -1 \/ a <= max
\* returns [done, res, dist, br, q]
RECURSIVE LgVisit(_, _, _, _, _, _)
LgVisit(nh, t, dist, br, q, max) ==
  IF t > Len(nh) THEN [done |-> FALSE, res |-> -1, dist |-> dist, br |-> br, q |-> q]
  ELSE LET x == nh[t] IN
       IF dist[x.node] # -1
       THEN IF TrackBranch /\ br[x.node] = x.br
            THEN LgVisit(nh, t + 1, dist, br, q, max)               \* same first hop: not a cycle through the root
            ELSE LET total == dist[x.node] + x.len IN
                 [done |-> TRUE, res |-> IF Le(total, max) THEN total ELSE -1, dist |-> dist, br |-> br, q |-> q]
       ELSE LgVisit(nh, t + 1, [dist EXCEPT ![x.node] = x.len], [br EXCEPT ![x.node] = x.br],
                    IF Lt(x.len, max) THEN Append(q, x) ELSE q, max)
PopLocal(adj, dist, br, q, max) == LgVisit(NextHeads(adj, q[1]), 1, dist, br, Tail(q), max)

RECURSIVE LgRun(_, _, _, _, _)
LgRun(adj, dist, br, q, max) ==
  IF q = <<>> THEN -1
  ELSE LET s == PopLocal(adj, dist, br, q, max) IN
       IF s.done THEN s.res ELSE LgRun(adj, s.dist, s.br, s.q, max)
LocalGirthAlgo(adj, root, max) == LgRun(adj, InitDist(adj, root), InitBranch(adj), InitQueue(root), max)

\* girth_with_max: minimum over the COLUMN nodes
GirthAlgo(adj, nr, nc, max) ==
  LET gs == { LocalGirthAlgo(adj, nr + j, max) : j \in 0..nc-1 } \ {-1} IN
  IF gs = {} THEN -1 ELSE MinOf(gs)
=============================================================================
