------------------------------- MODULE Sparse -------------------------------
(***************************************************************************)
(* src/sparse.rs : SparseMatrix as two mirrored adjacency lists.           *)
(*                                                                         *)
(*   rows[r] : sequence of column indices with a one in row r              *)
(*   cols[c] : sequence of row indices with a one in column c              *)
(*                                                                         *)
(* Implementation-shaped: `insert' pushes at the back of both lists unless *)
(* `contains' (searched in the column list), `remove' retains, clear_row   *)
(* walks rows[r] and retains in each column, set_* = clear_* ; insert_*.   *)
(* The abstract state is the set S of positions (module-level history      *)
(* variable updated by *set* semantics); TLC checks the refinement         *)
(* S = Abs(rows, cols) together with Mirror and NoDup (property C17).      *)
(*                                                                         *)
(* Indices are 0-based values; sequences are 1-based: rows[r+1].           *)
(***************************************************************************)
EXTENDS Naturals, Sequences, FiniteSets, SparseSet

CONSTANTS NR, NC            \* dimensions (never change: not variables)

VARIABLES rows, cols, S

vars == <<rows, cols, S>>

RowIdx == 0..NR-1
ColIdx == 0..NC-1

-----------------------------------------------------------------------------
(* sequence helpers *)
Retain(s, P(_)) == SelectSeq(s, P)
SeqSet(s) == { s[k] : k \in 1..Len(s) }
Has(s, x) == \E k \in 1..Len(s) : s[k] = x
NoDup(s) == \A a, b \in 1..Len(s) : s[a] = s[b] => a = b

-----------------------------------------------------------------------------
(* The code, operation by operation, as functions on <<rows, cols>>.       *)

Contains(m, r, c) == Has(m[2][c+1], r)          \* searched in the column

InsertM(m, r, c) ==
  IF Contains(m, r, c) THEN m
  ELSE << [m[1] EXCEPT ![r+1] = Append(@, c)],
          [m[2] EXCEPT ![c+1] = Append(@, r)] >>

RemoveM(m, r, c) ==
  << [m[1] EXCEPT ![r+1] = SelectSeq(@, LAMBDA x : x # c)],
     [m[2] EXCEPT ![c+1] = SelectSeq(@, LAMBDA x : x # r)] >>

ToggleM(m, r, c) == IF Contains(m, r, c) THEN RemoveM(m, r, c) ELSE InsertM(m, r, c)

RECURSIVE InsertRowM(_, _, _), InsertColM(_, _, _)
InsertRowM(m, r, cs) == IF cs = <<>> THEN m ELSE InsertRowM(InsertM(m, r, Head(cs)), r, Tail(cs))
InsertColM(m, c, rs) == IF rs = <<>> THEN m ELSE InsertColM(InsertM(m, Head(rs), c), c, Tail(rs))

ClearRowM(m, r) ==
  << [m[1] EXCEPT ![r+1] = <<>>],
     [c1 \in 1..Len(m[2]) |->
        IF Has(m[1][r+1], c1-1) THEN SelectSeq(m[2][c1], LAMBDA x : x # r) ELSE m[2][c1]] >>

ClearColM(m, c) ==
  << [r1 \in 1..Len(m[1]) |->
        IF Has(m[2][c+1], r1-1) THEN SelectSeq(m[1][r1], LAMBDA x : x # c) ELSE m[1][r1]],
     [m[2] EXCEPT ![c+1] = <<>>] >>

SetRowM(m, r, cs) == InsertRowM(ClearRowM(m, r), r, cs)
SetColM(m, c, rs) == InsertColM(ClearColM(m, c), c, rs)

-----------------------------------------------------------------------------
AbsRows(m) == { <<r, c>> \in RowIdx \X ColIdx : Has(m[1][r+1], c) }
AbsCols(m) == { <<r, c>> \in RowIdx \X ColIdx : Has(m[2][c+1], r) }

Init == /\ rows = [r \in 1..NR |-> <<>>]
        /\ cols = [c \in 1..NC |-> <<>>]
        /\ S = {}

Apply(m2, S2) == rows' = m2[1] /\ cols' = m2[2] /\ S' = S2

M == <<rows, cols>>

\* index sequences that bulk operations may receive: any sequence, repeated
\* indices included, of length <= MaxBulk
CONSTANT MaxBulk
BulkSeqs(Idx) == UNION { [1..k -> Idx] : k \in 0..MaxBulk }

Insert(r, c)      == Apply(InsertM(M, r, c), InsertS(S, r, c))
Remove(r, c)      == Apply(RemoveM(M, r, c), RemoveS(S, r, c))
Toggle(r, c)      == Apply(ToggleM(M, r, c), ToggleS(S, r, c))
InsertRow(r, cs)  == Apply(InsertRowM(M, r, cs), InsertRowS(S, r, cs))
InsertCol(c, rs)  == Apply(InsertColM(M, c, rs), InsertColS(S, c, rs))
ClearRow(r)       == Apply(ClearRowM(M, r), ClearRowS(S, r))
ClearCol(c)       == Apply(ClearColM(M, c), ClearColS(S, c))
SetRow(r, cs)     == Apply(SetRowM(M, r, cs), SetRowS(S, r, cs))
SetCol(c, rs)     == Apply(SetColM(M, c, rs), SetColS(S, c, rs))

Next ==
  \/ \E r \in RowIdx, c \in ColIdx : Insert(r, c) \/ Remove(r, c) \/ Toggle(r, c)
  \/ \E r \in RowIdx : ClearRow(r) \/ \E cs \in BulkSeqs(ColIdx) : InsertRow(r, cs) \/ SetRow(r, cs)
  \/ \E c \in ColIdx : ClearCol(c) \/ \E rs \in BulkSeqs(RowIdx) : InsertCol(c, rs) \/ SetCol(c, rs)

Spec == Init /\ [][Next]_vars

-----------------------------------------------------------------------------
(* Property C17 at design level *)
TypeOK  == /\ rows \in [1..NR -> Seq(ColIdx)] /\ cols \in [1..NC -> Seq(RowIdx)]
Mirror  == AbsRows(M) = AbsCols(M)                    \* row and column views consistent
NoDups  == (\A r \in 1..NR : NoDup(rows[r])) /\ (\A c \in 1..NC : NoDup(cols[c]))
Refines == AbsRows(M) = S                             \* behaves as the set of positions
WeightsOK == /\ \A r \in RowIdx : Len(rows[r+1]) = RowWeightS(S, r)
             /\ \A c \in ColIdx : Len(cols[c+1]) = ColWeightS(S, c)

\* "Inserting an entry that is already present or removing one that is absent
\* leaves the matrix equal to what it was" (equality of the representation).
IdemNoop == [][ \A r \in RowIdx, c \in ColIdx :
                 /\ (<<r, c>> \in S     => InsertM(M, r, c) = M)
                 /\ (<<r, c>> \notin S  => RemoveM(M, r, c) = M) ]_vars
=============================================================================
