CONSTANTS RMax = 3 NMax = 4 AssertAtTop = TRUE
INIT Init
NEXT Next
INVARIANTS EchelonOK NoPanic SysOKInv EncoderAccepts
CHECK_DEADLOCK FALSE
