----------------------------- MODULE Trace_C16 -----------------------------
(***************************************************************************)
(* C16: results of the real pseudorandom constructions.                    *)
(*  Mkn {cfg, seed, res, cols}   cols[j] = rows of column j in insertion   *)
(*      order (iter_col).  The final matrix IS a trace: with or without    *)
(*      backtracking, final column j was inserted when exactly the final   *)
(*      columns 0..j-1 were present (a backtrack clears a suffix), so TLC  *)
(*      replays the insertions and evaluates ColumnLegal on each, then     *)
(*      ResultOK on the whole.                                             *)
(*  Peg {cfg, seed, res, cols}   replayed edge by edge with ColumnLegalPeg *)
(*  Twice {kind, a, b, c}        same config and seed: again, and on       *)
(*      another thread                                                     *)
(*  Seeds {kind, digests, ok}    results of 20 consecutive seeds           *)
(*  Search {cfg, start, tries, threads, found, seed, cols, run_cols,       *)
(*          ok_seeds}            parallel seed search vs sequential runs   *)
(*  Sel {keys, n, seed, res, again, distinct}   util.rs sort_by_random_sel *)
(*      through the cfg-guarded hook: res = {none, sel = indices};         *)
(*      again = the same call repeated; distinct = number of different     *)
(*      results over 64 seeds                                              *)
(*  Min {keys, seed, res, again, distinct}      sort_by_random_min         *)
(*  Cmp {x, y, res}                             compare_some               *)
(***************************************************************************)
EXTENDS TraceKit, Peg, Util

VARIABLES l
vars == <<l>>

ColsAsSets(cols) == [j \in 1..Len(cols) |-> SeqToSet(cols[j])]
MknOK(ev) ==
  /\ ev.o = "ok"
  /\ ev.res = "ok" =>
       LET c == ev.cfg  sets == ColsAsSets(ev.cols) IN
       /\ \A j \in 1..Len(ev.cols) : NoDupSeq(ev.cols[j])
       /\ ResultOK(sets, c.nr, c.nc, c.wr, c.wc, c.uniform, c.min_girth)
       /\ \A j \in 1..Len(sets) : ColumnLegal(SubSeq(sets, 1, j - 1), sets[j], c.nr, c.nc, c.wr, c.wc, c.uniform, c.min_girth)
PegOK(ev) ==
  /\ ev.o = "ok"
  /\ ev.res = "ok" =>
       LET c == ev.cfg  sets == ColsAsSets(ev.cols) IN
       /\ Len(ev.cols) = c.nc
       /\ \A j \in 1..c.nc : ColumnLegalPeg(SubSeq(sets, 1, j - 1), ev.cols[j], c.nr, c.nc, c.wc)
TwiceOK(ev) == ev.o = "ok" /\ ev.a = ev.b /\ ev.a = ev.c                      \* same configuration and seed, same result
SeedsOK(ev) == ev.o = "ok" /\ (ev.ok >= 5 => Cardinality(SeqToSet(ev.digests)) >= 2)    \* different seeds explore different choices
SearchOK(ev) ==
  /\ ev.o = "ok"
  /\ IF ev.found
     THEN /\ ev.seed >= ev.start /\ ev.seed < ev.start + ev.tries          \* a seed inside the requested range
          /\ ev.seed \in SeqToSet(ev.ok_seeds)
          /\ ev.cols = ev.run_cols                                         \* exactly the matrix that seed produces
     ELSE ev.ok_seeds = <<>>                                               \* nothing only if every seed in range fails

SetOf(res) == { res[t] : t \in 1..Len(res) }
SelOK(ev) ==
  /\ ev.o = "ok"
  /\ SelResultOK(ev.keys, ev.n, ev.res.none, ev.res.sel)                                        \* n smallest, ties only at the cut
  /\ ev.again = ev.res                                                         \* same seed, same result
  /\ (Len(ev.keys) >= ev.n /\ Cardinality(SelOutcomes(ev.keys, ev.n)) >= 2) => ev.distinct >= 2   \* seeds explore the ties
MinOK(ev) ==
  /\ ev.o = "ok"
  /\ MinResultOK(ev.keys, ev.res)
  /\ ev.again = ev.res
  /\ Cardinality(MinOutcomes(ev.keys)) >= 2 => ev.distinct >= 2
CmpOK(ev) == ev.o = "ok" /\ ev.res = CompareSome(ev.x, ev.y)

EvOK(ev) == CASE ev.e = "Mkn" -> MknOK(ev) [] ev.e = "Peg" -> PegOK(ev) [] ev.e = "Twice" -> TwiceOK(ev)
              [] ev.e = "Seeds" -> SeedsOK(ev) [] ev.e = "Search" -> SearchOK(ev)
              [] ev.e = "Sel" -> SelOK(ev) [] ev.e = "Min" -> MinOK(ev) [] ev.e = "Cmp" -> CmpOK(ev) [] OTHER -> FALSE

Init == l = 1
Step == /\ l <= NRec
        /\ IF EvOK(Rec[l]) THEN l' = l + 1 ELSE Reject(l, "C16") /\ l' = Rec[l].nx
Fin  == l = NRec + 1 /\ Done(l) /\ l' = l + 1
Next == Step \/ Fin
=============================================================================
