CONSTANTS W = 2 Target = 2 Epochs = 2 KeepSender = FALSE JoinUnwrap = FALSE Faults <- NoFaults QMax = 2 Outcomes <- OutAll BchThreshold = 0 RQMax = 2 BoundedSend = FALSE MaxFrames = 3
SPECIFICATION Spec
VIEW View
CONSTRAINT FrameBound
INVARIANTS OneLinePerEbN0 LinesPrefix StatsExact StopExact NoLeak FinishedLast NoCollectorPanic NoStuck ErrorOnFault
CHECK_DEADLOCK FALSE
