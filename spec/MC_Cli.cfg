INIT Init
NEXT Next
INVARIANT Distinct
CHECK_DEADLOCK FALSE
