------------------------------ MODULE TraceKit ------------------------------
(***************************************************************************)
(* Shared plumbing for trace validation (impl -> spec and replayed         *)
(* spec -> impl).  A trace is an NDJSON file named by the environment      *)
(* variable TRACE.  Every line is a record with at least                   *)
(*    i  : case id (integer)          e  : event / action name (string)    *)
(*    o  : outcome of the call into the code under test                    *)
(*         ("ok" | "panic" | "hang" | "abort")                             *)
(*    nx : 1-based line number of the first line of the NEXT case          *)
(*         (added by the driver, = Len+1 for the last case)                *)
(* A trace is a concatenation of independent cases.  A trace spec consumes *)
(* one line per step; a line the specification cannot explain is REJECTED: *)
(* the line is printed and validation resumes at the next case, so the     *)
(* rest of the trace is still examined.                                    *)
(***************************************************************************)
EXTENDS Json, IOUtils, TLC, Sequences, Naturals

Rec  == ndJsonDeserialize(IOEnv.TRACE)     \* `Trace' clashes with TLCExt
NRec == Len(Rec)

SeqToSet(s) == { s[k] : k \in 1..Len(s) }
NoDupSeq(s) == \A a, b \in 1..Len(s) : s[a] = s[b] => a = b

\* Printed lines are parsed by the driver (./check).
Reject(k, why) == PrintT(<<"REJECT", k, Rec[k].i, Rec[k].e, why>>)
Done(k)        == PrintT(<<"TRACE-DONE", k - 1, NRec>>)   \* k = final position (an argument, so TLC does not pre-evaluate it)
=============================================================================
