CONSTANTS RMax = 3 CMax = 3 RangeCheck = TRUE SaturatingPad = TRUE
INIT Init
NEXT Next
INVARIANTS WriterConforms RoundTrip NoPanic WriterNoPanic ValidAccepted SameAsFunctional
CHECK_DEADLOCK FALSE
