-------------------------------- MODULE GF2 --------------------------------
(***************************************************************************)
(* GF(2) vectors and matrices (src/gf2.rs and the linear algebra the       *)
(* properties C02, C07, C09 speak about).  A vector is a sequence of 0/1,  *)
(* a matrix a sequence of row vectors.  Everything here is DECLARATIVE and *)
(* independent of any elimination algorithm: rank is log2 of the size of   *)
(* the row space, invertibility is triviality of the kernel.               *)
(***************************************************************************)
EXTENDS Naturals, Sequences, FiniteSets

Bit == {0, 1}
Add(a, b) == (a + b) % 2            \* GF2 add = sub
Mul(a, b) == a * b
\* gf2.rs Div: 1/1 = 1, 0/1 = 0, x/0 panics ("division by zero")
DivDefined(a, b) == b = 1
Div(a, b) == a

Vecs(n)     == [1..n -> Bit]
ZeroVec(n)  == [k \in 1..n |-> 0]
VecAdd(u, v) == [k \in 1..Len(u) |-> Add(u[k], v[k])]
RECURSIVE SumBits(_, _)
SumBits(u, k) == IF k = 0 THEN 0 ELSE Add(SumBits(u, k - 1), u[k])
Dot(u, v)   == SumBits([k \in 1..Len(u) |-> Mul(u[k], v[k])], Len(u))
Weight(u)   == Cardinality({k \in 1..Len(u) : u[k] = 1})

NRows(A) == Len(A)
NCols(A) == IF Len(A) = 0 THEN 0 ELSE Len(A[1])
Mats(r, n)  == [1..r -> Vecs(n)]
MatVec(A, x) == [j \in 1..Len(A) |-> Dot(A[j], x)]             \* A x
VecMat(y, A) == [k \in 1..NCols(A) |-> SumBits([j \in 1..Len(A) |-> Mul(y[j], A[j][k])], Len(A))]   \* y A
MatMul(A, B) == [j \in 1..Len(A) |-> VecMat(A[j], B)]
Identity(n) == [j \in 1..n |-> [k \in 1..n |-> IF j = k THEN 1 ELSE 0]]
Col(A, k)   == [j \in 1..Len(A) |-> A[j][k]]
\* the square matrix formed by the last NRows(A) columns
TailM(A)    == LET r == Len(A) n == NCols(A) IN [j \in 1..r |-> [k \in 1..r |-> A[j][n - r + k]]]
HeadM(A)    == LET r == Len(A) n == NCols(A) IN [j \in 1..r |-> [k \in 1..n - r |-> A[j][k]]]

\* kernel brute force: no elimination involved
Invertible(T) == \A x \in Vecs(Len(T)) : x # ZeroVec(Len(T)) => MatVec(T, x) # ZeroVec(Len(T))
RowSpace(A)   == { VecMat(y, A) : y \in Vecs(Len(A)) }
RECURSIVE Log2(_)
Log2(k) == IF k <= 1 THEN 0 ELSE 1 + Log2(k \div 2)
Rank(A)       == Log2(Cardinality(RowSpace(A)))
FullRowRank(A) == \A y \in Vecs(Len(A)) : y # ZeroVec(Len(A)) => VecMat(y, A) # ZeroVec(NCols(A))

\* certificates (for matrices too large for brute force; TLC verifies the witness)
IsInverse(T, U)   == MatMul(T, U) = Identity(Len(T))
IsKernelVec(T, x) == x # ZeroVec(Len(x)) /\ MatVec(T, x) = ZeroVec(Len(T))
IsLeftKernelVec(A, y) == y # ZeroVec(Len(y)) /\ VecMat(y, A) = ZeroVec(NCols(A))

\* column multiset equality
ColumnsOf(A) == { Col(A, k) : k \in 1..NCols(A) }
CountCol(A, c) == Cardinality({ k \in 1..NCols(A) : Col(A, k) = c })
IsColumnPermutation(A, B) ==
  /\ Len(A) = Len(B) /\ NCols(A) = NCols(B)
  /\ \A c \in ColumnsOf(A) \cup ColumnsOf(B) : CountCol(A, c) = CountCol(B, c)

-----------------------------------------------------------------------------
(* Sparse <-> dense: rows as adjacency lists of 0-based column indices.    *)
Dense(rows, n) == [j \in 1..Len(rows) |-> [k \in 1..n |-> IF \E t \in 1..Len(rows[j]) : rows[j][t] = k - 1 THEN 1 ELSE 0]]
\* syndrome of a word (sequence of bits) w.r.t. adjacency-list rows
RECURSIVE ParityAt(_, _, _)
ParityAt(w, idx, t) == IF t = 0 THEN 0 ELSE Add(ParityAt(w, idx, t - 1), w[idx[t] + 1])
Syn(rows, w) == [j \in 1..Len(rows) |-> ParityAt(w, rows[j], Len(rows[j]))]
SynZero(rows, w) == \A j \in 1..Len(rows) : ParityAt(w, rows[j], Len(rows[j])) = 0
=============================================================================
