--------------------------------- MODULE BP ---------------------------------
(***************************************************************************)
(* Belief propagation as the textbook defines it (property C03), generic   *)
(* over an arithmetic given by operator parameters, for the two schedules  *)
(* of src/decoder/flooding.rs and src/decoder/horizontal_layered.rs, and   *)
(* the decoder OBJECT with its persistent buffers (C10), plus the          *)
(* arithmetic-independent relation between input and result (C01).         *)
(*                                                                         *)
(* Graph: rows = sequence (one per check, 1-based) of sequences of 0-based *)
(* variable indices; n = number of variables.                              *)
(***************************************************************************)
EXTENDS DecodeRel

CONSTANTS
  Quant(_),          \* channel LLR -> working LLR
  Hard(_),           \* working LLR -> BOOLEAN (TRUE: bit 1)
  CheckMsg(_, _),    \* (sequence of incoming messages at a check, index i) -> message to neighbour i
  VarTotal(_, _),    \* (channel LLR, sequence of incoming check messages) -> new LLR
  VarMsg(_, _),      \* (new LLR, message from check i) -> message to check i
  ToMsg(_),          \* layered: extrinsic value -> variable-to-check message
  ZeroMsg,           \* default check message
  ResetOutput        \* flooding initialize() also resets the output LLRs (FALSE: code as found, defect D4)

Deg(rows, c) == Len(rows[c])
VarsOf(rows, c) == { rows[c][t] : t \in 1..Len(rows[c]) }
ChecksOf(rows, v) == { c \in 1..Len(rows) : v \in VarsOf(rows, c) }

-----------------------------------------------------------------------------
(* Flooding.  Object state: [inp, out, vmsg, cmsg]                          *)
(*   vmsg[c][t] : message from variable rows[c][t] to check c               *)
(*   cmsg[c][t] : message from check c to variable rows[c][t]               *)
FreshFlood(rows, n) ==
  [inp |-> [v \in 1..n |-> 0], out |-> [v \in 1..n |-> 0],
   vmsg |-> [c \in 1..Len(rows) |-> [t \in 1..Len(rows[c]) |-> 0]],
   cmsg |-> [c \in 1..Len(rows) |-> [t \in 1..Len(rows[c]) |-> ZeroMsg]]]

FloodInit(rows, st, llrs) ==
  LET q == F([v \in 1..Len(llrs) |-> Quant(llrs[v])]) IN
  [st EXCEPT !.inp = q,
             !.out = IF ResetOutput THEN q ELSE st.out,
             !.vmsg = F([c \in 1..Len(rows) |-> F([t \in 1..Len(rows[c]) |-> q[rows[c][t] + 1]])])]

\* all check-to-variable messages from the PREVIOUS variable-to-check messages
FloodChecks(rows, st) ==
  [st EXCEPT !.cmsg = F([c \in 1..Len(rows) |-> F([t \in 1..Len(rows[c]) |-> CheckMsg(st.vmsg[c], t)])])]

\* incoming check messages of variable v, as a sequence in check order, with the (c, t) they come from
Incoming(rows, v) == UNION { { <<c, t>> : t \in { u \in 1..Len(rows[c]) : rows[c][u] = v } } : c \in 1..Len(rows) }
RECURSIVE PairsSeq(_)
PairsSeq(S) == IF S = {} THEN <<>> ELSE
               LET p == CHOOSE x \in S : \A y \in S : x[1] < y[1] \/ (x[1] = y[1] /\ x[2] <= y[2]) IN <<p>> \o PairsSeq(S \ {p})

FloodVars(rows, st) ==
  LET n == Len(st.inp)
      inc == F([v \in 1..n |-> PairsSeq(Incoming(rows, v - 1))])
      tot == F([v \in 1..n |-> VarTotal(st.inp[v], F([k \in 1..Len(inc[v]) |-> st.cmsg[inc[v][k][1]][inc[v][k][2]]]))])
  IN [st EXCEPT !.out = tot,
                !.vmsg = F([c \in 1..Len(rows) |-> F([t \in 1..Len(rows[c]) |->
                             VarMsg(tot[rows[c][t] + 1], st.cmsg[c][t])])])]

WordOf(llrsW) == F([v \in 1..Len(llrsW) |-> Bit(Hard(llrsW[v]))])

RECURSIVE FloodIter(_, _, _, _)
FloodIter(rows, st, it, limit) ==
  IF it > limit THEN [res |-> [verdict |-> "err", word |-> WordOf(st.out), iters |-> limit], st |-> st]
  ELSE LET s1 == FloodChecks(rows, st)
           s2 == FloodVars(rows, s1) IN
       IF SynZero(rows, WordOf(s2.out))                              \* syndrome tested after every FULL iteration
       THEN [res |-> [verdict |-> "ok", word |-> WordOf(s2.out), iters |-> it], st |-> s2]
       ELSE FloodIter(rows, s2, it + 1, limit)

FloodDecode(rows, st, llrs, limit) ==
  IF SynZero(rows, HardIn(llrs))
  THEN [res |-> [verdict |-> "ok", word |-> HardIn(llrs), iters |-> 0], st |-> st]
  ELSE LET s0 == FloodInit(rows, st, llrs) IN FloodIter(rows, s0, 1, limit)

-----------------------------------------------------------------------------
(* Horizontal layered.  Object state: [var, cmsg]                           *)
FreshLayered(rows, n) ==
  [var |-> [v \in 1..n |-> 0], cmsg |-> [c \in 1..Len(rows) |-> [t \in 1..Len(rows[c]) |-> ZeroMsg]]]

LayerInit(rows, st, llrs) ==
  [var |-> F([v \in 1..Len(llrs) |-> Quant(llrs[v])]),
   cmsg |-> F([c \in 1..Len(rows) |-> F([t \in 1..Len(rows[c]) |-> ZeroMsg])])]

\* one check node: extrinsics, new messages, immediate variable update
Layer(rows, st, c) ==
  LET d   == Len(rows[c])
      ext == F([t \in 1..d |-> st.var[rows[c][t] + 1] - st.cmsg[c][t]])
      inm == F([t \in 1..d |-> ToMsg(ext[t])])
      new == F([t \in 1..d |-> CheckMsg(inm, t)])
  IN [var |-> F([v \in 1..Len(st.var) |->
                 IF \E t \in 1..d : rows[c][t] = v - 1
                 THEN LET t == CHOOSE u \in 1..d : rows[c][u] = v - 1 IN ext[t] + new[t]
                 ELSE st.var[v]]),
      cmsg |-> [st.cmsg EXCEPT ![c] = new]]

RECURSIVE Layers(_, _, _)
Layers(rows, st, c) == IF c > Len(rows) THEN st
                       ELSE LET s1 == Layer(rows, st, c) IN Layers(rows, s1, c + 1)        \* ROW ORDER
\* (TLC passes operator arguments by name: always hand over a LET-bound value, never a compound expression)

RECURSIVE LayerIter(_, _, _, _)
LayerIter(rows, st, it, limit) ==
  IF it > limit THEN [res |-> [verdict |-> "err", word |-> WordOf(st.var), iters |-> limit], st |-> st]
  ELSE LET s2 == Layers(rows, st, 1) IN
       IF SynZero(rows, WordOf(s2.var))
       THEN [res |-> [verdict |-> "ok", word |-> WordOf(s2.var), iters |-> it], st |-> s2]
       ELSE LayerIter(rows, s2, it + 1, limit)

LayerDecode(rows, st, llrs, limit) ==
  IF SynZero(rows, HardIn(llrs))
  THEN [res |-> [verdict |-> "ok", word |-> HardIn(llrs), iters |-> 0], st |-> st]
  ELSE LET s0 == LayerInit(rows, st, llrs) IN LayerIter(rows, s0, 1, limit)

Decode(sched, rows, st, llrs, limit) ==
  IF sched = "flooding" THEN FloodDecode(rows, st, llrs, limit) ELSE LayerDecode(rows, st, llrs, limit)
Fresh(sched, rows, n) == IF sched = "flooding" THEN FreshFlood(rows, n) ELSE FreshLayered(rows, n)
\* what a freshly built decoder returns (C10's reference)
FreshResult(sched, rows, n, llrs, limit) == LET f == Fresh(sched, rows, n) IN Decode(sched, rows, f, llrs, limit).res

\* LLRs after exactly `its' iterations with the syndrome test disabled (for the exactness clause)
RECURSIVE FloodForce(_, _, _), LayerForce(_, _, _)
FloodForce(rows, st, its) == IF its = 0 THEN st ELSE
  LET s1 == FloodChecks(rows, st) s2 == FloodVars(rows, s1) IN FloodForce(rows, s2, its - 1)
LayerForce(rows, st, its) == IF its = 0 THEN st ELSE LET s1 == Layers(rows, st, 1) IN LayerForce(rows, s1, its - 1)
ForcedLlrs(sched, rows, n, llrs, its) ==
  IF sched = "flooding" THEN LET f == FreshFlood(rows, n) s0 == FloodInit(rows, f, llrs) IN FloodForce(rows, s0, its).out
  ELSE LET f == FreshLayered(rows, n) s0 == LayerInit(rows, f, llrs) IN LayerForce(rows, s0, its).var
=============================================================================
