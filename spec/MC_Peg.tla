------------------------------- MODULE MC_Peg -------------------------------
(* Every behaviour of PEG for a small configuration: each finished column is ColumnLegalPeg and has weight min(wc, rows). *)
EXTENDS Peg, TLC
CONSTANTS NR, NC, WC
VARIABLES cols, cur, k  \* finished columns (sequences), edges of the column under construction, insert_edge calls so far
vars == <<cols, cur, k>>
Init == cols = <<>> /\ cur = <<>> /\ k = 0
Step == /\ Len(cols) < NC
        /\ IF k = WC
           THEN cols' = Append(cols, cur) /\ cur' = <<>> /\ k' = 0
           ELSE LET sets == Append(ColSets(cols), { cur[t] : t \in 1..Len(cur) }) IN
                \E r \in EdgeCandidates(sets, NR, NC, Len(cols)) :
                   \* insert() of an already present entry does nothing (only possible when every check is connected)
                   cur' = (IF \E t \in 1..Len(cur) : cur[t] = r THEN cur ELSE Append(cur, r)) /\ k' = k + 1 /\ UNCHANGED cols
Next == Step
\* property level
Legal == \A j \in 1..Len(cols) : ColumnLegalPeg(SubSeq(ColSets(cols), 1, j - 1), cols[j], NR, NC, WC)
=============================================================================
