CONSTANTS W = 3 Target = 2 Epochs = 1 KeepSender = FALSE JoinUnwrap = FALSE Faults <- NoFaults QMax = 2 Outcomes <- OutAll BchThreshold = 0 MaxFrames = 5
SPECIFICATION Spec
VIEW View
CONSTRAINT FrameBound
INVARIANTS StatsExact StopExact NoLeak FinishedLast NoCollectorPanic NoStuck ErrorOnFault
CHECK_DEADLOCK FALSE
