----------------------------- MODULE Trace_C14 -----------------------------
(***************************************************************************)
(* C14.  Events:                                                           *)
(*  Table {labels}             the constellation table the harness oracle *)
(*                             uses: must be Psk!Label                     *)
(*  Mod8 {bits, oct, dist_cb, layout}   modulated triple: octant index of  *)
(*                             the point and its distance from the ideal   *)
(*                             unit-circle point (centibels)               *)
(*  ModB {bit, pt, dist_cb}    BPSK point (pt = -1 | 1)                    *)
(*  Dem8 {scale_cb, llr:[{err_cb, ref_s, got_s, ref_cb}]} 8PSK demodulated *)
(*                             sample vs the posterior from Psk!Label      *)
(*  DemB {scale_cb, err_cb, ref_s, got_s, ref_cb}                          *)
(*  Round {mod, layout, bits, got}   noiseless round trip: hard decisions  *)
(***************************************************************************)
EXTENDS TraceKit, Psk

VARIABLES l
vars == <<l>>

Max2(a, b) == IF a >= b THEN a ELSE b
\* 1e-13 * max(1, max_s |<r,s>|/sigma^2): the two log-sum-exps cancel at the scale of the largest exponent
TolLlr(scale_cb) == -1300 + Max2(0, scale_cb)
LlrOK(x, scale_cb) ==
  /\ x.err_cb <= TolLlr(scale_cb)
  /\ (x.ref_cb > TolLlr(scale_cb) + 100 => x.got_s = x.ref_s)          \* sign = bit of the nearest point, beyond rounding noise

TableOK(ev) == ev.o = "ok" /\ ev.labels = Label
Mod8OK(ev) == ev.o = "ok" /\ ev.oct = PointOf(ev.bits) /\ ev.dist_cb <= -1400
ModBOK(ev) == ev.o = "ok" /\ ev.pt = BpskPoint(ev.bit) /\ ev.dist_cb <= -1400
Dem8OK(ev) == ev.o = "ok" /\ Len(ev.llr) = 3 /\ \A b \in 1..3 : LlrOK(ev.llr[b], ev.scale_cb)
DemBOK(ev) == ev.o = "ok" /\ LlrOK(ev, ev.scale_cb)
RoundOK(ev) == ev.o = "ok" /\ ev.got = ev.bits

EvOK(ev) == CASE ev.e = "Table" -> TableOK(ev) [] ev.e = "Mod8" -> Mod8OK(ev) [] ev.e = "ModB" -> ModBOK(ev)
              [] ev.e = "Dem8" -> Dem8OK(ev) [] ev.e = "DemB" -> DemBOK(ev) [] ev.e = "Round" -> RoundOK(ev) [] OTHER -> FALSE

Init == l = 1
Step == /\ l <= NRec
        /\ IF EvOK(Rec[l]) THEN l' = l + 1 ELSE Reject(l, "C14") /\ l' = Rec[l].nx
Fin  == l = NRec + 1 /\ Done(l) /\ l' = l + 1
Next == Step \/ Fin
=============================================================================
