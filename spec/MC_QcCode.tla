----------------------------- MODULE MC_QcCode -----------------------------
(***************************************************************************)
(* Lemma checks for QcCode.tla on scaled-down parameters (group size l,    *)
(* shift q, m = l*q, address tables with <= 2 groups of <= 3 addresses):   *)
(*  (a) column t+1 of a group is column t shifted down by q mod m          *)
(*  (b) the parity part is a staircase (Encoder!IsStaircase), hence        *)
(*      invertible: linear-time encodable                                  *)
(*  (c) NoFourCycle(addresses) <=> the Tanner graph has no cycle of        *)
(*      length 4 (Tanner!Girth, declarative)                               *)
(***************************************************************************)
EXTENDS QcCode, TLC
CONSTANTS LL, QQ
VARIABLES addrs
vars == <<addrs>>
MM == LL * QQ
AddrSets == { S \in SUBSET (0..MM-1) : Cardinality(S) \in 1..3 }
Init == addrs \in { <<a>> : a \in AddrSets } \cup { <<a, b>> : a \in AddrSets, b \in AddrSets }
Next == UNCHANGED addrs

K == Len(addrs) * LL
N == K + MM
ColRows(c) == IF c < K THEN InfoCol(addrs[(c \div LL) + 1], c % LL, QQ, MM) ELSE ParityCol(c - K, MM)   \* 0-based column
T == INSTANCE Tanner
RowsSeq == [i \in 1..MM |-> LET S == { c \in 0..N-1 : (i - 1) \in ColRows(c) } IN
             LET RECURSIVE Sq(_) Sq(X) == IF X = {} THEN <<>> ELSE LET x == CHOOSE y \in X : TRUE IN <<x>> \o Sq(X \ {x}) IN Sq(S)]
Shifted == \A g \in 1..Len(addrs) : \A t \in 0..LL-2 :
             InfoCol(addrs[g], t + 1, QQ, MM) = { (r + QQ) % MM : r \in InfoCol(addrs[g], t, QQ, MM) }
G == INSTANCE GF2
E == INSTANCE Encoder
Dense == [i \in 1..MM |-> [c \in 1..N |-> IF (i - 1) \in ColRows(c - 1) THEN 1 ELSE 0]]
Staircase == E!IsStaircase(Dense) /\ G!Invertible(G!TailM(Dense))
Criterion == NoFourCycle(addrs, QQ, MM) <=> (T!Girth(T!Adj(RowsSeq, MM, N)) # 4)
=============================================================================
