----------------------------- MODULE MC_Sparse -----------------------------
EXTENDS Sparse, TLC
CONSTANT MaxOps
VARIABLE n          \* number of operations so far (bounds the exhaustive run)
InitMC == Init /\ n = 0
NextMC == n < MaxOps /\ Next /\ n' = n + 1
NoopInv == \A r \in RowIdx, c \in ColIdx :
             /\ (<<r, c>> \in S     => InsertM(M, r, c) = M)
             /\ (<<r, c>> \notin S  => RemoveM(M, r, c) = M)
=============================================================================
