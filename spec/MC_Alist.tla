------------------------------ MODULE MC_Alist ------------------------------
(***************************************************************************)
(* Design-level check of C08.                                              *)
(*  mode "rt"  : every matrix up to RMax x CMax, both paddings: the writer *)
(*               output conforms, is a valid alist, and parses back to M.  *)
(*  mode "soup": every text made of a header variant, three skipped lines  *)
(*               and up to 2 column lines of <= 2 tokens over a small      *)
(*               alphabet (incl. non-numbers and out-of-range indices):    *)
(*               the parser machine never panics, and accepts every text   *)
(*               that is a ValidAlist of some matrix with that matrix.     *)
(* The parser runs as a step machine: one action per consumed line.        *)
(***************************************************************************)
EXTENDS Alist, TLC
CONSTANTS RMax, CMax
VARIABLES mode, M, padded, lines, s
vars == <<mode, M, padded, lines, s>>

AllM == UNION { { [nr |-> r, nc |-> c, cols |-> cs] : cs \in [1..c -> SUBSET (0..r-1)] } : r \in 1..RMax, c \in 1..CMax }

Tok == {-1, 0, 1, 2, 3}
Lines2 == {<<>>} \cup { <<a>> : a \in Tok } \cup { <<a, b>> : a, b \in Tok }
Headers == { <<>>, <<-1>>, <<2>>, <<2, -1>>, <<1, 1>>, <<1, 2>>, <<2, 1>>, <<2, 2>>, <<2, 2, 7>>, <<0, 0>>, <<0, 2>> }
Soups == { <<h>> : h \in Headers }
         \cup { <<h, <<>>, <<>>, <<>>>> : h \in Headers }
         \cup { <<h, <<>>, <<>>, <<>>, a>> : h \in Headers, a \in Lines2 }
         \cup { <<h, <<>>, <<>>, <<>>, a, b>> : h \in Headers, a \in Lines2, b \in Lines2 }

Init == \/ /\ mode = "rt" /\ M \in AllM /\ padded \in BOOLEAN
           /\ lines = Write(M, padded) /\ s = ParseInit
        \/ /\ mode = "soup" /\ M = <<>> /\ padded = FALSE
           /\ lines \in Soups /\ s = ParseInit

Step == s.pc # "done" /\ s' = ParseStep(lines, s) /\ UNCHANGED <<mode, M, padded, lines>>
Next == Step
Spec == Init /\ [][Next]_vars

WriterConforms == mode = "rt" => WriteConforms(lines, M, padded) /\ ValidAlist(lines, M)
RoundTrip      == mode = "rt" /\ s.pc = "done" => s.res = "ok" /\ ParsedMatrix(s) = M
NoPanic        == s.res # "panic"
WriterNoPanic  == mode = "rt" => ~WritePanics(M, padded)
\* a soup that happens to be a valid alist of a (declared-size) matrix parses to that matrix
ValidAccepted  == mode = "soup" /\ s.pc = "done" /\ Len(lines) >= 1 /\ Len(lines[1]) >= 2
                    /\ lines[1][1] \in 0..2 /\ lines[1][2] \in 0..3 =>
                  \A cs \in [1..lines[1][1] -> SUBSET (0..lines[1][2]-1)] :
                     LET Mx == [nr |-> lines[1][2], nc |-> lines[1][1], cols |-> cs] IN
                     ValidAlist(lines, Mx) => s.res = "ok" /\ ParsedMatrix(s) = Mx
SameAsFunctional == s.pc = "done" => s = Parse(lines)
=============================================================================
