----------------------------- MODULE Trace_C20 -----------------------------
(***************************************************************************)
(* C20: runs of the built `ldpc-toolbox' binary in a sandbox directory,    *)
(* paired with values the library computes in-process.                     *)
(*  Gen {sub, rate, short|bs, girth, status, out_sha, lib, text}           *)
(*      out_sha = SHA-256 of the canonical alist of the matrix stdout      *)
(*      parses to; lib = code identifier -> digest of Code::h().alist()    *)
(*  Construct {sub, status, out_sha, lib_ok, lib_sha, search, seed_line,   *)
(*      start, tries}       peg / mackay-neal                              *)
(*  Sys {kind, status, rows, n, parsed, res, res_n}                        *)
(*  Encode {status, fits, words, out, ref}                                 *)
(*  Ber {status, npoints, target, bch, k, lines, lines_ldpc}               *)
(***************************************************************************)
EXTENDS TraceKit, Cli, Encoder

Ch == INSTANCE Chain

VARIABLES l
vars == <<l>>

GenOK(ev) ==
  /\ ev.o = "ok"
  /\ CASE ev.sub = "dvbs2" ->
            IF DvbValid(ev.rate, ev.short)
            THEN /\ Success(ev)
                 /\ IF ev.girth THEN (DocumentedGirth("dvbs2", ev.rate, ev.short, "") # "" => ev.text = DocumentedGirth("dvbs2", ev.rate, ev.short, ""))
                    ELSE ev.out_sha = ev.lib[DvbCode(ev.rate, ev.short)]              \* the alist of exactly the matrix the library constructs
            ELSE CleanFailure(ev)
       [] ev.sub = "ccsds" ->
            IF CcsdsValid(ev.rate, ev.bs)
            THEN /\ Success(ev)
                 /\ IF ev.girth THEN (DocumentedGirth("ccsds", ev.rate, FALSE, ev.bs) # "" => ev.text = DocumentedGirth("ccsds", ev.rate, FALSE, ev.bs))
                    ELSE ev.out_sha = ev.lib[CcsdsCode(ev.rate, ev.bs)]
            ELSE CleanFailure(ev)
       [] ev.sub = "ccsds-c2" -> Success(ev) /\ ev.out_sha = ev.lib["C2"]
       [] OTHER -> FALSE

ConstructOK(ev) ==
  /\ ev.o = "ok"
  /\ IF ev.lib_ok
     THEN /\ Success(ev) /\ ev.out_sha = ev.lib_sha                                     \* the matrix Config::run(seed) returns
          /\ (ev.search => ev.seed_line >= ev.start /\ ev.seed_line < ev.start + ev.tries)
     ELSE CleanFailure(ev)

SysEvOK(ev) ==
  /\ ev.o = "ok"
  /\ IF ev.kind \in {"malformed", "missing"} THEN CleanFailure(ev)
     ELSE LET H == Dense(ev.rows, ev.n) IN
          IF FullRowRank(H)
          THEN /\ Success(ev) /\ ev.parsed /\ ev.res_n = ev.n /\ Len(ev.res) = Len(ev.rows)
               /\ LET R == Dense(ev.res, ev.n) IN IsColumnPermutation(H, R) /\ Invertible(TailM(R))     \* the converted matrix (C09)
          ELSE CleanFailure(ev)

\* The file `encode' must write, computed by the specification itself: EncodeStream!Expected made concrete - for each COMPLETE word
\* of K = n - r input bytes (a byte is a one iff it equals 1) the codeword of Encoder.tla, punctured by Chain.tla; a trailing partial
\* word contributes nothing.
RECURSIVE EncodedFile(_, _, _, _)
EncodedFile(enc, input, P, w) ==
  IF w = 0 THEN <<>>
  ELSE LET K   == Len(enc.gen[1])
           msg == [t \in 1..K |-> IF input[(w - 1) * K + t] = 1 THEN 1 ELSE 0]
           cw  == Encode(enc, msg)
           pun == Ch!Puncture(cw, P)
           pre == EncodedFile(enc, input, P, w - 1)
       IN pre \o pun
EncodeEvOK(ev) ==
  /\ ev.o = "ok"
  /\ IF ev.fits
     THEN /\ Success(ev) /\ ev.out = ev.ref          \* for each complete word exactly the (punctured) codeword, nothing more
          /\ LET H == Dense(ev.rows, ev.n)  enc == FromH(H)  K == ev.n - Len(ev.rows)
                 P == [t \in 1..Len(ev.patb) |-> ev.patb[t] = 1] IN
             enc.ok /\ ev.out = EncodedFile(enc, ev.input, P, Len(ev.input) \div K)
     ELSE CleanFailure(ev)

Abs(x) == IF x < 0 THEN -x ELSE x
BerLineOK(ln, k, target, countsTarget) ==
  /\ ln.frames >= 1 /\ ln.ferr <= ln.frames /\ ln.fdec <= ln.frames /\ ln.berr >= ln.ferr /\ ln.berr <= k * ln.frames
  /\ (countsTarget => ln.ferr = target)
  /\ Abs(ln.fer_u * ln.frames - ln.ferr * 1000000) <= 6000 * ln.ferr + ln.frames          \* FER = frame errors / frames (3 printed digits)
  /\ Abs((ln.ber_n \div 1000) * (k * ln.frames) - ln.berr * 1000000) <= 6000 * ln.berr + k * ln.frames
BerEvOK(ev) ==
  /\ ev.o = "ok" /\ Success(ev)
  \* the parameter block: k, codeword size, frame size counted AFTER puncturing, rate = k / N (3 decimals)
  /\ ev.d_k = ev.k /\ ev.d_ncw = ev.ncw
  /\ LET P == [t \in 1..Len(ev.pat) |-> ev.pat[t] = 1] IN ev.d_n * Len(ev.pat) = ev.ncw * Ch!Trues(P)
  /\ Abs(ev.d_rate_m * ev.d_n - ev.k * 1000) <= ev.d_n
  \* one result line per requested Eb/N0: min, min + step, ... up to and not beyond max (centi-dB; the harness uses exactly representable grids)
  /\ ev.npoints = EbN0Points(ev.min_c, ev.max_c, ev.step_c) /\ Len(ev.lines) = ev.npoints
  /\ \A t \in 1..Len(ev.lines) : ev.lines[t].ebn0_c = ev.min_c + ev.step_c * (t - 1) /\ ev.lines[t].ebn0_c <= ev.max_c
                                  /\ BerLineOK(ev.lines[t], ev.k, ev.target, TRUE)
  /\ (ev.bch > 0 => Len(ev.lines_ldpc) = ev.npoints
                    /\ \A t \in 1..Len(ev.lines_ldpc) : BerLineOK(ev.lines_ldpc[t], ev.k, ev.target, FALSE)
                                                       /\ ev.lines_ldpc[t].frames = ev.lines[t].frames
                                                       /\ ev.lines_ldpc[t].ferr >= ev.lines[t].ferr)

\* the girth printed "when asked", against oracles independent of the library's girth search: (large codes) it is 4 exactly when the
\* harness's column-pair test finds a 4-cycle, and a printed 6 comes with a 6-cycle; (small PEG matrices) TLC computes the girth itself
T == INSTANCE Tanner
GirthEvOK(ev) ==
  /\ ev.o = "ok" /\ Success(ev) /\ ev.parsed
  /\ IF ev.small
     THEN ev.printed = T!Girth(T!Adj(ev.rows, ev.nr, ev.nc))
     ELSE /\ ev.printed >= 4 /\ ev.printed % 2 = 0
          /\ (ev.printed = 4 <=> ev.four_cycle)
          /\ (ev.printed > 6 => ev.cyc6 = <<>>)

\* ber with an outer code (t = 2) and both files, frame outcomes scripted (1 and 3 systematic bit errors alternately, per decoder):
\* one row per Eb/N0 in each file; LDPC-only rows count EVERY frame as a frame error; outer-code rows only the 3-error frames, and
\* stop exactly on the target; both files describe the same frames
BerInOK(ev) ==
  /\ ev.o = "ok"
  /\ Len(ev.lines) = ev.npoints /\ Len(ev.lines_ldpc) = ev.npoints
  /\ \A p \in 1..ev.npoints :
       LET B == ev.lines[p]  L == ev.lines_ldpc[p] IN
       /\ B.ebn0_c = 4000 + 100 * (p - 1) /\ L.ebn0_c = B.ebn0_c
       /\ B.frames = L.frames /\ B.frames >= 1
       /\ L.ferr = L.frames /\ L.berr >= L.frames /\ L.berr <= 3 * L.frames           \* LDPC only: every frame has 1 or 3 bit errors
       /\ B.ferr = ev.target /\ B.berr = 3 * B.ferr /\ B.ferr < B.frames                \* outer code: only the 3-error frames remain
       /\ L.berr = 3 * B.ferr + (L.frames - B.ferr)                                      \* the same frames in both files
       /\ BerLineOK(B, ev.k, ev.target, TRUE) /\ BerLineOK(L, ev.k, ev.target, FALSE)

EvOK(ev) == CASE ev.e = "BerIn" -> BerInOK(ev) [] ev.e = "Girth" -> GirthEvOK(ev) [] ev.e = "Gen" -> GenOK(ev) [] ev.e = "Construct" -> ConstructOK(ev) [] ev.e = "Sys" -> SysEvOK(ev)
              [] ev.e = "Encode" -> EncodeEvOK(ev) [] ev.e = "Ber" -> BerEvOK(ev) [] OTHER -> FALSE

Init == l = 1
Step == /\ l <= NRec
        /\ IF EvOK(Rec[l]) THEN l' = l + 1 ELSE Reject(l, "C20") /\ l' = Rec[l].nx
Fin  == l = NRec + 1 /\ Done(l) /\ l' = l + 1
Next == Step \/ Fin
=============================================================================
