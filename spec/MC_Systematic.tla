--------------------------- MODULE MC_Systematic ---------------------------
(***************************************************************************)
(* Design-level check of C09: row_echelon_form (one action per column      *)
(* step) followed by the pivot scan of parity_to_systematic, on EVERY      *)
(* binary r x n matrix, 1 <= r <= n, r <= RMax, n <= NMax.                 *)
(***************************************************************************)
EXTENDS Systematic, TLC
CONSTANTS RMax, NMax
VARIABLES H, pc, a, jj, kk, res
vars == <<H, pc, a, jj, kk, res>>

Init == /\ \E r \in 1..RMax : \E n \in r..NMax : H \in Mats(r, n)
        /\ pc = "echelon" /\ a = H /\ jj = 1 /\ kk = 1 /\ res = <<>>

Echelon ==
  /\ pc = "echelon" /\ UNCHANGED <<H, res>>
  /\ IF EchelonDone(a, jj, kk) THEN pc' = "scan" /\ UNCHANGED <<a, jj, kk>>
     ELSE LET s == EchelonStep(a, jj, kk) IN a' = s[1] /\ jj' = s[2] /\ kk' = s[3] /\ UNCHANGED pc

Scan ==
  /\ pc = "scan" /\ UNCHANGED <<H, a, jj, kk>>
  /\ pc' = "done"
  /\ res' = ToSystematic(H)

Next == Echelon \/ Scan
Spec == Init /\ [][Next]_vars

EchelonOK == pc = "scan" => IsEchelon(a) /\ a = RowEchelon(H) /\ RowSpace(a) = RowSpace(H)
NoPanic   == pc = "done" => res.v # "panic"
SysOKInv  == pc = "done" /\ res.v # "panic" =>
               SysOK(H, res.v, IF res.v = "ok" THEN Permuted(H, res.perm) ELSE <<>>)
\* ... and the systematic encoder then accepts the result (C09 last clause, via C02's model)
EncoderAccepts == pc = "done" /\ res.v = "ok" => FromH(Permuted(H, res.perm)).ok
=============================================================================
