------------------------------ MODULE MC_Ccsds ------------------------------
(***************************************************************************)
(* Design-level checks for the AR4JA construction on a scaled-down block   *)
(* size: a cell is built by `insert' of the first permutation and `toggle' *)
(* of the others (as ccsds.rs does).  For every choice of 2 or 3           *)
(* permutations of N points: the toggle expansion equals the GF(2) sum of  *)
(* the permutation matrices; it has exactly (number of summands) ones per  *)
(* row iff no two summands collide in that row; insert-only expansion      *)
(* (InsertOnly = TRUE, negative configuration) differs from the GF(2) sum  *)
(* exactly when two summands collide.  The ASSUMEs of Ccsds.tla            *)
(* (protograph degrees, k = (blocks - 3) M) are evaluated at startup.      *)
(***************************************************************************)
EXTENDS Ccsds, TLC
CONSTANTS N, InsertOnly
VARIABLES perms
vars == <<perms>>
Perm == { p \in [0..N-1 -> 0..N-1] : \A a, b \in 0..N-1 : p[a] = p[b] => a = b }
Init == perms \in { <<p, q>> : p \in Perm, q \in Perm } \cup { <<p, q, r>> : p \in Perm, q \in Perm, r \in Perm }
Next == UNCHANGED perms
\* row i of the cell after insert(first) then toggle(rest) / insert(rest)
RECURSIVE Expand(_, _, _)
Expand(i, k, acc) == IF k > Len(perms) THEN acc
                     ELSE LET c == perms[k][i] IN
                          Expand(i, k + 1, IF c \in acc /\ ~InsertOnly THEN acc \ {c} ELSE acc \cup {c})
Gf2Row(i) == { c \in 0..N-1 : Cardinality({ k \in 1..Len(perms) : perms[k][i] = c }) % 2 = 1 }
ToggleIsGf2Sum == \A i \in 0..N-1 : Expand(i, 1, {}) = Gf2Row(i)
RegularIffNoCollision == \A i \in 0..N-1 :
   (Cardinality(Gf2Row(i)) = Len(perms)) <=> (\A a, b \in 1..Len(perms) : a # b => perms[a][i] # perms[b][i])
=============================================================================
