----------------------------- MODULE DecodeRel -----------------------------
(***************************************************************************)
(* C01: the relation between (parity-check matrix, sign pattern of the     *)
(* input LLRs, iteration limit) and the result of a decode call, which     *)
(* must hold for ANY arithmetic and schedule.  No constants: used by BP    *)
(* (design level) and by Trace_C01 / Trace_C10 (judging the real code).    *)
(* rows: one sequence of 0-based variable indices per check.               *)
(***************************************************************************)
EXTENDS Integers, Sequences, FiniteSets

Bit(b) == IF b THEN 1 ELSE 0
\* TLC keeps [k \in 1..n |-> e] as an unevaluated closure that is re-evaluated at every application; chains of
\* such closures across iterations blow up exponentially.  F() materialises a sequence (semantically the identity).
F(s) == s \o <<>>

RECURSIVE ParityOf(_, _, _)
ParityOf(w, idx, t) == IF t = 0 THEN 0 ELSE (ParityOf(w, idx, t - 1) + w[idx[t] + 1]) % 2
SynZero(rows, w) == \A c \in 1..Len(rows) : ParityOf(w, rows[c], Len(rows[c])) = 0
HardIn(llrs) == F([v \in 1..Len(llrs) |-> Bit(llrs[v] <= 0)])          \* non-positive means 1

-----------------------------------------------------------------------------
(* C01: the relation every decode result must satisfy, for ANY arithmetic.  *)
(* r = [verdict |-> "ok"|"err", word, iters]                                *)
C01Rel(rows, n, hardIn, limit, r) ==
  /\ r.verdict \in {"ok", "err"}
  /\ Len(r.word) = n /\ \A v \in 1..n : r.word[v] \in {0, 1}
  /\ r.verdict = "ok" =>
       /\ SynZero(rows, r.word)
       /\ r.iters >= 0 /\ r.iters <= limit
       /\ (r.iters = 0 <=> SynZero(rows, hardIn))
       /\ (r.iters = 0 => r.word = hardIn)
  /\ r.verdict = "err" =>
       /\ r.iters = limit
       /\ (limit >= 1 => ~SynZero(rows, r.word))

=============================================================================
