CONSTANTS W = 2 Target = 2 Epochs = 1 KeepSender = FALSE JoinUnwrap = TRUE Faults <- PanicOnly QMax = 2 Outcomes <- OutErr BchThreshold = 0 RQMax = 2 BoundedSend = FALSE MaxFrames = 100
SPECIFICATION Spec
INVARIANTS NoCollectorPanic
CHECK_DEADLOCK FALSE
