CONSTANTS RMax = 2 CMax = 2 RangeCheck = TRUE SaturatingPad = FALSE
INIT Init
NEXT Next
INVARIANTS WriterNoPanic
CHECK_DEADLOCK FALSE
