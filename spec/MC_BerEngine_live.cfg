CONSTANTS W = 2 Target = 2 Epochs = 2 KeepSender = FALSE JoinUnwrap = FALSE Faults <- AllFaults QMax = 2 Outcomes <- OutErr BchThreshold = 0 RQMax = 2 BoundedSend = FALSE MaxFrames = 100
SPECIFICATION Spec
INVARIANTS OneLinePerEbN0 LinesPrefix StatsExact StopExact NoLeak FinishedLast NoCollectorPanic NoStuck
PROPERTY Termination ProgressTerminates
CHECK_DEADLOCK FALSE
