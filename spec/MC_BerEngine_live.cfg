CONSTANTS W = 2 Target = 2 Epochs = 2 KeepSender = FALSE JoinUnwrap = FALSE Faults <- AllFaults QMax = 2 Outcomes <- OutErr BchThreshold = 0 MaxFrames = 100
SPECIFICATION Spec
INVARIANTS StatsExact StopExact NoLeak FinishedLast NoCollectorPanic NoStuck
PROPERTY Termination
CHECK_DEADLOCK FALSE
