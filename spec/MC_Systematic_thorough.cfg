CONSTANTS RMax = 3 NMax = 5 AssertAtTop = FALSE
INIT Init
NEXT Next
INVARIANTS EchelonOK NoPanic SysOKInv EncoderAccepts
CHECK_DEADLOCK FALSE
