INIT Init
NEXT Next
INVARIANT NameRule
CHECK_DEADLOCK FALSE
