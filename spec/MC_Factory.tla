----------------------------- MODULE MC_Factory -----------------------------
(* Design-level sanity of Factory.tla: the ASSUMEs (24 / 36 / injectivity) are evaluated by TLC at startup; *)
(* the single state enumerates the documented table.                                                        *)
EXTENDS Factory, TLC
VARIABLE p
Init == p \in Documented
Next == UNCHANGED p
NameRule == NameOf(p) \in Names /\ (p[1] <=> SchedOf(p) = "layered")
=============================================================================
