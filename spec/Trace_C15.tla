----------------------------- MODULE Trace_C15 -----------------------------
(***************************************************************************)
(* C15: the real Interleaver / Puncturer judged index by index by Chain.   *)
(*  Il {C, back, ty, x, y}    interleave of x (ty: element type used)      *)
(*  Dl {C, back, x, y}        deinterleave                                 *)
(*  Pu {pat, x, v, y}         puncture:   v = "ok" | "err"                 *)
(*  De {pat, x, v, y}         depuncture: v = "ok" | "err"                 *)
(*  Ra {pat, micro}           rate() in 1e-6 units                         *)
(***************************************************************************)
EXTENDS TraceKit, Chain

VARIABLES l
vars == <<l>>

Pat(ev) == [k \in 1..Len(ev.pat) |-> ev.pat[k] = 1]
IlOK(ev) == ev.o = "ok" /\ Len(ev.x) % ev.C = 0 /\ ev.y = Interleave(ev.x, ev.C, ev.back)
DlOK(ev) == ev.o = "ok" /\ Len(ev.x) % ev.C = 0 /\ ev.y = Deinterleave(ev.x, ev.C, ev.back)
PuOK(ev) == /\ ev.o = "ok" /\ Trues(Pat(ev)) >= 1
            /\ IF PunctureFits(Len(ev.x), Pat(ev)) THEN ev.v = "ok" /\ ev.y = Puncture(ev.x, Pat(ev))
               ELSE ev.v = "err"                                  \* an error, not a panic, not a truncated result
DeOK(ev) == /\ ev.o = "ok" /\ Trues(Pat(ev)) >= 1
            /\ IF DepunctureFits(Len(ev.x), Pat(ev)) THEN ev.v = "ok" /\ ev.y = Depuncture(ev.x, Pat(ev))
               ELSE ev.v = "err"
RaOK(ev) == LET r == Rate(Pat(ev)) want == (2 * r[1] * 1000000 + r[2]) \div (2 * r[2]) IN
            ev.o = "ok" /\ ev.micro >= want - 1 /\ ev.micro <= want + 1

EvOK(ev) == CASE ev.e = "Il" -> IlOK(ev) [] ev.e = "Dl" -> DlOK(ev) [] ev.e = "Pu" -> PuOK(ev)
              [] ev.e = "De" -> DeOK(ev) [] ev.e = "Ra" -> RaOK(ev) [] OTHER -> FALSE

Init == l = 1
Step == /\ l <= NRec
        /\ IF EvOK(Rec[l]) THEN l' = l + 1 ELSE Reject(l, "C15") /\ l' = Rec[l].nx
Fin  == l = NRec + 1 /\ Done(l) /\ l' = l + 1
Next == Step \/ Fin
=============================================================================
