----------------------------- MODULE Systematic -----------------------------
(***************************************************************************)
(* src/systematic.rs: parity_to_systematic.                                *)
(*  property level (C09):  SysOK                                           *)
(*  implementation level:  the scan over the row echelon form with write   *)
(*  pointer k and search start j0, the internal assertions as "panic".     *)
(*  AssertAtTop = TRUE models the code as found (assert!(k < m - n) at the *)
(*  top of every pivot row: defect D5); FALSE the repaired placement.      *)
(***************************************************************************)
EXTENDS Encoder

CONSTANT AssertAtTop

\* result: [v |-> "ok", perm |-> sequence: perm[newcol] = oldcol] | [v |-> "notfullrank"] | [v |-> "panic"]
\* (columns are 1-based here)
RECURSIVE ScanRow(_, _, _, _, _, _), ScanRows(_, _, _, _, _), PlaceRest(_, _, _, _)
\* scan row j of echelon form a from column s: returns [found, k, j0, perm, panic]
ScanRow(a, j, s, k, perm, m) ==
  LET n == Len(a) IN
  IF s > m THEN [found |-> FALSE, k |-> k, j0 |-> s, perm |-> perm, panic |-> FALSE]
  ELSE IF a[j][s] = 0
       THEN IF ~AssertAtTop /\ ~(k < m - n)                    \* repaired: assert where a free column is written
            THEN [found |-> FALSE, k |-> k, j0 |-> s, perm |-> perm, panic |-> TRUE]
            ELSE ScanRow(a, j, s + 1, k + 1, [perm EXCEPT ![k + 1] = s], m)
       ELSE [found |-> TRUE, k |-> k, j0 |-> s + 1, perm |-> [perm EXCEPT ![m - n + j] = s], panic |-> FALSE]
ScanRows(a, j, k, j0, perm) ==
  LET n == Len(a) m == NCols(a) IN
  IF j > n THEN [k |-> k, j0 |-> j0, perm |-> perm, panic |-> FALSE]
  ELSE IF AssertAtTop /\ ~(k < m - n) THEN [k |-> k, j0 |-> j0, perm |-> perm, panic |-> TRUE]
  ELSE LET s == ScanRow(a, j, j0, k, perm, m) IN
       IF s.panic \/ ~s.found THEN [k |-> s.k, j0 |-> s.j0, perm |-> s.perm, panic |-> TRUE]   \* assert!(found)
       ELSE ScanRows(a, j + 1, s.k, s.j0, s.perm)
PlaceRest(j, k, perm, lim) ==         \* remaining columns j..m at the write point; lim = m - n
  IF j > Len(perm) THEN [perm |-> perm, panic |-> FALSE]
  ELSE IF ~(k < lim) THEN [perm |-> perm, panic |-> TRUE]
  ELSE PlaceRest(j + 1, k + 1, [perm EXCEPT ![k + 1] = j], lim)

ToSystematic(H) ==
  LET n == Len(H) m == NCols(H)
      a == RowEchelon(H)
  IN IF \A t \in 1..m : a[n][t] = 0 THEN [v |-> "notfullrank"]
     ELSE LET s == ScanRows(a, 1, 0, 1, [t \in 1..m |-> 0]) IN
          IF s.panic THEN [v |-> "panic"]
          ELSE LET p == PlaceRest(s.j0, s.k, s.perm, m - n) IN
               IF p.panic THEN [v |-> "panic"]
               ELSE [v |-> "ok", perm |-> p.perm]
Permuted(H, perm) == [j \in 1..Len(H) |-> [t \in 1..NCols(H) |-> H[j][perm[t]]]]

-----------------------------------------------------------------------------
(* Property level: verdict v in {"ok","notfullrank"}; R the returned matrix *)
SysOK(H, v, R) ==
  \/ v = "notfullrank" /\ ~FullRowRank(H)
  \/ v = "ok" /\ FullRowRank(H) /\ IsColumnPermutation(H, R) /\ Invertible(TailM(R))
=============================================================================
