----------------------------- MODULE Trace_C03 -----------------------------
(***************************************************************************)
(* C03: the real GENERIC decoders, instantiated with checker-supplied      *)
(* arithmetics, judged by the textbook schedules of BP.tla.                *)
(*  Decode {sched, rows, n, llrs (in quarters), limit, call, verdict, ...}  *)
(*     real flooding::Decoder<IntMinSum> / horizontal_layered::Decoder<..> *)
(*     (IntMinSum = MinSum.tla with differently scaled value types), one   *)
(*     long-lived decoder object per short history of calls;               *)
(*     TLC recomputes the textbook result with BP instantiated by MinSum   *)
(*     and requires equality of verdict, word and iteration count.         *)
(*  Dec8 {name, kind, phl, jones, deg1, sched, rows, n, x8, limit, result}  *)
(*     the 20 factory-built 8-bit decoders vs BP8.tla (= BP o Arith)        *)
(*  Post {arith, sched, f32, rows, n, its, len, err_cb, refc}              *)
(*     real sum-product arithmetics on a forest, forced to iterate `its'   *)
(*     >= diameter times: distance (centibels) of every per-bit LLR from   *)
(*     the brute-force posterior must be within floating-point tolerance.  *)
(***************************************************************************)
EXTENDS TraceKit, MinSum

E8 == INSTANCE BP8

\* channel LLRs are logged in QUARTERS (llrs[v] = 4 * LLR): the checker's arithmetic quantises with f64::round (half away from
\* zero), so a small positive LLR becomes the working value 0 - whose hard decision is 1 - while the zero-iteration test of the
\* textbook schedule looks at the sign of the CHANNEL value
Q4(x) == IF x >= 0 THEN (x + 2) \div 4 ELSE -((2 - x) \div 4)
B == INSTANCE BP WITH Quant <- Q4, Hard <- MSHard, CheckMsg <- MSCheckMsg, VarTotal <- MSVarTotal,
                      VarMsg <- MSVarMsg, ToMsg <- MSToMsg, ZeroMsg <- 0, ResetOutput <- TRUE

VARIABLES l
vars == <<l>>

DecodeOK(ev) ==
  /\ ev.o = "ok" /\ ev.sched \in {"flooding", "layered"} /\ Len(ev.llrs) = ev.n
  /\ LET r == B!FreshResult(ev.sched, ev.rows, ev.n, ev.llrs, ev.limit) IN
     /\ ev.verdict = r.verdict /\ ev.word = r.word /\ ev.iters = r.iters

\* 1e-9 (f64) / 3e-2 (f32): > 100x the largest error seen on the unchanged tree, << 1 (a mis-routed message).
\* Only inside the arithmetic's working range (Arith.tla: phi/tanh lose all precision beyond |LLR| ~ 12 in f32,
\* ~ 30 in f64); the largest posterior magnitude bounds the internal messages on a forest.
\* ... and never below the rounding floor of the phi / tanh rules themselves: messages of magnitude m are carried as phi(m) ~ 2 e^-m, so one
\* unit in the last place of a sum of phis is an LLR error of about eps * e^m (centibels: 100 log10(eps) + 43.4 m; 60 cB of margin)
TolPosterior(f32, m) == LET base == IF f32 THEN -150 ELSE -900
                            floor == (IF f32 THEN -692 ELSE -1566) + 44 * m + 60
                        IN IF floor > base THEN floor ELSE base
MaxRefc(ev) == CHOOSE m \in { ev.refc[v] : v \in 1..ev.n } : \A v \in 1..ev.n : ev.refc[v] <= m
InRange(ev) == MaxRefc(ev) <= (IF ev.f32 THEN 9 ELSE 25)
PostOK(ev) ==
  /\ ev.o = "ok" /\ ev.len = ev.n /\ Len(ev.err_cb) = ev.n
  /\ \A c \in 1..Len(ev.rows) : Len(ev.rows[c]) >= 2
  \* "after at least graph-diameter iterations": rounds = message-passing rounds the decoder really ran (counted by the wrapper)
  /\ ((InRange(ev) /\ ev.rounds >= ev.diam) => \A v \in 1..ev.n : ev.err_cb[v] <= TolPosterior(ev.f32, MaxRefc(ev)))

\* the built-in 8-bit decoders (factory-built, reused for three calls) return exactly what the textbook schedule
\* composed with the exact integer rule set of Arith.tla returns (BP8.tla)
Dec8OK(ev) ==
  /\ ev.o = "ok" /\ Len(ev.x8) = ev.n
  /\ LET r == E8!Result8(ev.kind, ev.phl, ev.jones, ev.deg1, ev.sched, ev.rows, ev.n, ev.x8, ev.limit) IN
     /\ ev.verdict = r.verdict /\ ev.word = r.word /\ ev.iters = r.iters

EvOK(ev) == CASE ev.e = "Decode" -> DecodeOK(ev) [] ev.e = "Post" -> PostOK(ev) [] ev.e = "Dec8" -> Dec8OK(ev) [] OTHER -> FALSE

Init == l = 1
Step == /\ l <= NRec
        /\ IF EvOK(Rec[l]) THEN l' = l + 1 ELSE Reject(l, "C03") /\ l' = Rec[l].nx
Fin  == l = NRec + 1 /\ Done(l) /\ l' = l + 1
Next == Step \/ Fin
=============================================================================
