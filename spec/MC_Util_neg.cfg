CONSTANTS MaxL = 4 MaxK = 2 NoTieCut = TRUE
INIT Init
NEXT Next
INVARIANTS SelSound
CHECK_DEADLOCK FALSE
