------------------------------ MODULE BerStats ------------------------------
(***************************************************************************)
(* The statistics of the BER engine (C13) as a fold over whole simulated   *)
(* frames.  An outcome is [be |-> bit errors in the systematic part,       *)
(* ok |-> decoder verdict, it |-> iterations].  `thr' is the outer-code    *)
(* (BCH) correction threshold, 0 = no outer code.  No constants: used by   *)
(* BerEngine (design level) and Trace_C13 (judging the real engine).       *)
(***************************************************************************)
EXTENDS Integers, Sequences, FiniteSets

FrameError(o) == o.be > 0
FalseDecode(o) == o.be > 0 /\ o.ok
Zero == [frames |-> 0, ferr |-> 0, fdec |-> 0, berr |-> 0, iters |-> 0, citers |-> 0, bferr |-> 0, bberr |-> 0, bciters |-> 0]
AccT(s, o, thr) ==
  [frames  |-> s.frames + 1,
   ferr    |-> s.ferr + (IF FrameError(o) THEN 1 ELSE 0),
   fdec    |-> s.fdec + (IF FalseDecode(o) THEN 1 ELSE 0),
   berr    |-> s.berr + o.be,
   iters   |-> s.iters + o.it,
   citers  |-> s.citers + (IF FrameError(o) THEN 0 ELSE o.it),                      \* iterations of correct frames only
   bferr   |-> s.bferr + (IF thr > 0 /\ o.be > thr THEN 1 ELSE 0),                  \* the outer code cannot correct
   bberr   |-> s.bberr + (IF thr > 0 /\ o.be > thr THEN o.be ELSE 0),
   bciters |-> s.bciters + (IF thr > 0 /\ o.be <= thr THEN o.it ELSE 0)]
ErrorsT(s, thr) == IF thr > 0 THEN s.bferr ELSE s.ferr                               \* what the stopping rule counts
RECURSIVE FoldT(_, _, _)
FoldT(seq, k, thr) == IF k = 0 THEN Zero ELSE AccT(FoldT(seq, k - 1, thr), seq[k], thr)
=============================================================================
