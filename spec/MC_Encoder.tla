----------------------------- MODULE MC_Encoder -----------------------------
(***************************************************************************)
(* Design-level check of C02: Encoder::from_h / encode as a step machine   *)
(* (staircase test; Gauss-Jordan forward sweep, one action per pivot;      *)
(* backward sweep, one action per pivot) on EVERY binary matrix with       *)
(* r <= RMax rows and r <= n <= NMax columns.                              *)
(***************************************************************************)
EXTENDS Encoder, TLC
CONSTANTS RMax, NMax
VARIABLES H, pc, a, j, enc
vars == <<H, pc, a, j, enc>>

Init == /\ \E r \in 1..RMax : \E n \in r..NMax : H \in Mats(r, n)
        /\ pc = "start" /\ a = <<>> /\ j = 0 /\ enc = <<>>

CheckStaircase ==
  /\ pc = "start"
  /\ IF IsStaircase(H)
     THEN enc' = StaircaseArm(H) /\ pc' = "done" /\ UNCHANGED <<a, j>>
     ELSE a' = Rearranged(H) /\ j' = 1 /\ pc' = "fwd" /\ UNCHANGED enc
  /\ UNCHANGED H

Forward ==
  /\ pc = "fwd" /\ UNCHANGED H
  /\ LET s == GaussForward(a, j) IN
     IF ~s.ok THEN pc' = "done" /\ enc' = [ok |-> FALSE, kind |-> "dense", gen |-> <<>>] /\ UNCHANGED <<a, j>>
     ELSE /\ a' = s.a /\ UNCHANGED enc
          /\ IF j = Len(H) THEN pc' = "bwd" /\ j' = Len(H) ELSE pc' = "fwd" /\ j' = j + 1

Backward ==
  /\ pc = "bwd" /\ UNCHANGED H
  /\ IF j = 0
     THEN /\ pc' = "done" /\ UNCHANGED <<a, j>>
          /\ enc' = [ok |-> TRUE, kind |-> "dense",
                     gen |-> [r \in 1..Len(H) |-> [t \in 1..NCols(H) - Len(H) |-> a[r][Len(H) + t]]]]
     ELSE a' = GaussBackward(a, j) /\ j' = j - 1 /\ UNCHANGED <<pc, enc>>

Next == CheckStaircase \/ Forward \/ Backward
Spec == Init /\ [][Next]_vars

Msgs == Vecs(NCols(H) - Len(H))
\* C02 on the model
VerdictOK  == pc = "done" => FromHOK(H, enc.ok)
CodewordOK == pc = "done" /\ enc.ok => \A m \in Msgs : EncOK(H, m, Encode(enc, m))
LinearOK   == pc = "done" /\ enc.ok => \A m1, m2 \in Msgs :
                 Encode(enc, VecAdd(m1, m2)) = VecAdd(Encode(enc, m1), Encode(enc, m2))
StaircaseInvertible == IsStaircase(H) => Invertible(TailM(H))
\* the step machine computes what the functional form FromH (used by other modules) computes
SameAsFunctional == pc = "done" => enc = FromH(H)
\* on a staircase matrix the accumulator arm and the dense (Gauss-Jordan) arm produce the same codewords
ArmsAgree == IsStaircase(H) /\ pc = "start" =>
               LET d == DenseArm(H) s == StaircaseArm(H) IN d.ok /\ \A m \in Msgs : Encode(d, m) = Encode(s, m)
\* after the backward sweep the left block is the identity (Gauss-Jordan postcondition)
JordanOK == pc = "done" /\ enc.ok /\ enc.kind = "dense" =>
              \A r \in 1..Len(H) : \A t \in 1..Len(H) : a[r][t] = IF r = t THEN 1 ELSE 0
=============================================================================
