CONSTANTS NR = 3 NC = 3 TrackBranch = FALSE Bounds <- BoundsNone
INIT Init
NEXT Next
INVARIANTS LocalGirthExact
CHECK_DEADLOCK FALSE
