----------------------------- MODULE Trace_C17 -----------------------------
(***************************************************************************)
(* C17: every observed history of SparseMatrix operations must be a        *)
(* behaviour of the set-of-positions specification (SparseSet), with every *)
(* query (contains, weights, the three iterators) agreeing with the set    *)
(* after every step.  Iteration ORDER is not part of the property.         *)
(*                                                                         *)
(* Events (one case = New, then Ops):                                      *)
(*   New {nr, nc, obs}                                                     *)
(*   Op  {op, r, c, idx, eq, obs}   eq: (matrix == clone taken before op)  *)
(*   obs = {nr, nc, cells, rw, cw, rows, cols, all}                        *)
(***************************************************************************)
EXTENDS TraceKit, SparseSet

VARIABLES l, T, dims
vars == <<l, T, dims>>

ApplyS(ev) ==
  CASE ev.op = "insert"     -> InsertS(T, ev.r, ev.c)
    [] ev.op = "remove"     -> RemoveS(T, ev.r, ev.c)
    [] ev.op = "toggle"     -> ToggleS(T, ev.r, ev.c)
    [] ev.op = "insert_row" -> InsertRowS(T, ev.r, ev.idx)
    [] ev.op = "insert_col" -> InsertColS(T, ev.c, ev.idx)
    [] ev.op = "clear_row"  -> ClearRowS(T, ev.r)
    [] ev.op = "clear_col"  -> ClearColS(T, ev.c)
    [] ev.op = "set_row"    -> SetRowS(T, ev.r, ev.idx)
    [] ev.op = "set_col"    -> SetColS(T, ev.c, ev.idx)

KnownOp(ev) == ev.op \in {"insert","remove","toggle","insert_row","insert_col",
                          "clear_row","clear_col","set_row","set_col"}

ObsOK(U, o, nr, nc) ==
  /\ o.nr = nr /\ o.nc = nc                                   \* dimensions never change
  /\ SeqToSet(o.cells) = U                                    \* membership
  /\ Len(o.rw) = nr /\ \A r \in 0..nr-1 : o.rw[r+1] = RowWeightS(U, r)
  /\ Len(o.cw) = nc /\ \A c \in 0..nc-1 : o.cw[c+1] = ColWeightS(U, c)
  /\ Len(o.rows) = nr
  /\ \A r \in 0..nr-1 : NoDupSeq(o.rows[r+1]) /\ SeqToSet(o.rows[r+1]) = RowOfS(U, r)
  /\ Len(o.cols) = nc
  /\ \A c \in 0..nc-1 : NoDupSeq(o.cols[c+1]) /\ SeqToSet(o.cols[c+1]) = ColOfS(U, c)
  /\ NoDupSeq(o.all) /\ SeqToSet(o.all) = U

\* insert-present / remove-absent leave the matrix EQUAL to what it was
NoopOK(ev) ==
  /\ (ev.op = "insert" /\ <<ev.r, ev.c>> \in T    => ev.eq)
  /\ (ev.op = "remove" /\ <<ev.r, ev.c>> \notin T => ev.eq)

Init == l = 1 /\ T = {} /\ dims = <<0, 0>>

EvNew ==
  /\ l <= NRec /\ Rec[l].e = "New"
  /\ LET ev == Rec[l] IN
     IF ev.o = "ok" /\ ObsOK({}, ev.obs, ev.nr, ev.nc)
     THEN l' = l + 1 /\ T' = {} /\ dims' = <<ev.nr, ev.nc>>
     ELSE Reject(l, "new") /\ l' = ev.nx /\ T' = {} /\ dims' = <<0, 0>>

EvOp ==
  /\ l <= NRec /\ Rec[l].e = "Op"
  /\ LET ev == Rec[l] IN
     IF ev.o = "ok" /\ KnownOp(ev) /\ NoopOK(ev) /\ ObsOK(ApplyS(ev), ev.obs, dims[1], dims[2])
     THEN l' = l + 1 /\ T' = ApplyS(ev) /\ UNCHANGED dims
     ELSE Reject(l, "op") /\ l' = ev.nx /\ T' = {} /\ dims' = <<0, 0>>

EvOther ==
  /\ l <= NRec /\ Rec[l].e \notin {"New", "Op"}
  /\ Reject(l, "unknown event") /\ l' = Rec[l].nx /\ T' = {} /\ dims' = <<0, 0>>

Fin == l = NRec + 1 /\ Done(l) /\ l' = l + 1 /\ UNCHANGED <<T, dims>>

Next == EvNew \/ EvOp \/ EvOther \/ Fin
Spec == Init /\ [][Next]_vars
=============================================================================
