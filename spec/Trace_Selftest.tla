--------------------------- MODULE Trace_Selftest ---------------------------
(* Oracle qualification: the harness oracles (bit-packed rank, column-pair 4-cycle test, 6-cycle search, stable      *)
(* box-plus) on TLC-sized inputs against the declarative definitions of GF2.tla and Tanner.tla.                      *)
EXTENDS TraceKit, Integers
G == INSTANCE GF2
T == INSTANCE Tanner
VARIABLES l
vars == <<l>>
OracleOK(ev) ==
  LET H == G!Dense(ev.rows, ev.nc)  adj == T!Adj(ev.rows, ev.nr, ev.nc)  g == T!Girth(adj) IN
  /\ ev.rank = G!Rank(H) /\ ev.lrank = ev.rank
  /\ ev.four = (g = 4)
  /\ (g = 6 => ev.cyc6)                                   \* a 6-cycle is found whenever the girth is 6
  /\ (ev.cyc6 => g # -1 /\ g <= 6)
EvOK(ev) == CASE ev.e = "Oracle" -> OracleOK(ev) [] ev.e = "BoxPlus" -> ev.err_cb <= -1200 [] OTHER -> FALSE
Init == l = 1
Step == /\ l <= NRec
        /\ IF EvOK(Rec[l]) THEN l' = l + 1 ELSE Reject(l, "selftest") /\ l' = Rec[l].nx
Fin  == l = NRec + 1 /\ Done(l) /\ l' = l + 1
Next == Step \/ Fin
=============================================================================
