-------------------------------- MODULE BP8 --------------------------------
(***************************************************************************)
(* The twenty built-in 8-bit decoders as the COMPOSITION of the textbook   *)
(* schedules (BP.tla) with the exact integer rule sets (Arith.tla).        *)
(* Channel LLRs are given on the 1/8 grid as integers x = 8*llr, so the    *)
(* quantiser is Clip(x) with no rounding involved.                         *)
(* Used by Trace_C03: the real factory-built 8-bit decoders must return    *)
(* exactly what this composition returns (C03 applied to the built-in      *)
(* arithmetics; it binds Arith.tla and BP.tla to the code end to end).     *)
(***************************************************************************)
EXTENDS Arith

D(kind, phl, jones, deg1) ==
  INSTANCE BP WITH
    Quant    <- LAMBDA x : Clip(x),
    Hard     <- LAMBDA x : x <= 0,                                           \* sign of Clip(t) = sign of t
    CheckMsg <- LAMBDA ins, i : Check8(kind, ins, phl)[i],
    VarTotal <- LAMBDA llr, ins : LET t0 == Deg1(deg1, llr, Len(ins) = 1) + SumSeq(ins, Len(ins)) IN IF jones THEN Clip(t0) ELSE t0,
    VarMsg   <- LAMBDA t, in : Clip(t - in),
    ToMsg    <- LAMBDA e : Clip(e),
    ZeroMsg  <- 0,
    ResetOutput <- TRUE

\* name -> rule set (the 16 8-bit arithmetic type names)
Kind8(a)  == IF SubSeq(a, 1, 1) = "M" THEN "minstar" ELSE "aminstar"
Result8(kind, phl, jones, deg1, sched, rows, n, x8, limit) == D(kind, phl, jones, deg1)!FreshResult(sched, rows, n, x8, limit)
=============================================================================
