----------------------------- MODULE Trace_C19 -----------------------------
(***************************************************************************)
(* C19: calls of the ldpc_toolbox_* extern "C" symbols, made in a child    *)
(* process with a write-ahead record per call (an abort is attributed to   *)
(* its input: o = "abort").                                                *)
(*  Ctor   {kind, via, name, pat_tokens, file_ok, ref_alist_ok, ref_enc_ok,*)
(*          null}                                                          *)
(*  Decode {f32, out_len, limit, ref:{verdict, word, iters}, ret, out}     *)
(*  Encode {bits, ref, out}                                                *)
(***************************************************************************)
EXTENDS TraceKit, CApi

VARIABLES l
vars == <<l>>

CtorOK(ev) == ev.o = "ok" /\ ev.null = ExpectNull(ev.kind, ev.file_ok, ev.ref_alist_ok, ev.name, ev.pat_tokens, ev.tail_inv)   \* tail_inv: the harness's own elimination (oracle)
DecodeOK(ev) == ev.o = "ok" /\ DecodeRel(ev.ret, ev.out, ev.out_len, ev.ref)
EncodeOK(ev) == ev.o = "ok" /\ Len(ev.ref) > 0 /\ ev.out = ev.ref

EvOK(ev) == CASE ev.e = "Ctor" -> CtorOK(ev) [] ev.e = "Decode" -> DecodeOK(ev) [] ev.e = "Encode" -> EncodeOK(ev) [] OTHER -> FALSE

Init == l = 1
Step == /\ l <= NRec
        /\ IF EvOK(Rec[l]) THEN l' = l + 1 ELSE Reject(l, "C19") /\ l' = Rec[l].nx
Fin  == l = NRec + 1 /\ Done(l) /\ l' = l + 1
Next == Step \/ Fin
=============================================================================
