----------------------------- MODULE Trace_C19 -----------------------------
(***************************************************************************)
(* C19: calls of the ldpc_toolbox_* extern "C" symbols, made in a child    *)
(* process with a write-ahead record per call (an abort is attributed to   *)
(* its input: o = "abort").                                                *)
(*  Ctor   {kind, via, name, pat_tokens, file_ok, ref_alist_ok, ref_enc_ok,*)
(*          null, cut}                                                     *)
(*  Decode {f32, out_len, limit, ref:{verdict, word, iters}, ret, out}     *)
(*  Encode {bits, ref, out}                                                *)
(***************************************************************************)
EXTENDS TraceKit, CApi

VARIABLES l
vars == <<l>>

CtorOK(ev) == /\ ev.o = "ok" /\ ev.null = ExpectNull(ev.kind, ev.file_ok, ev.ref_alist_ok, ev.name, ev.pat_tokens, ev.tail_inv)   \* tail_inv: the harness's own elimination (oracle)
              /\ (ev.cut => ev.null)     \* a text that ends before the last declared column list is malformed whatever the Rust parser says
DecodeOK(ev) == ev.o = "ok" /\ DecodeRel(ev.ret, ev.out, ev.out_len, ev.ref)
\* the codeword the C encoder must write, computed by the specification (Encoder.tla + Chain.tla) from the matrix, the bytes and the
\* pattern - small matrices only (hrows non-empty); bytes other than 0/1 are judged against a fresh handle (independence of calls)
En == INSTANCE Encoder
Ch == INSTANCE Chain
SpecCodeword(ev) ==
  LET H == En!Dense(ev.hrows, ev.hn)  enc == En!FromH(H)  K == ev.hn - Len(ev.hrows)
      msg == [t \in 1..K |-> IF ev.bits[t] = 1 THEN 1 ELSE 0]
      P == IF ev.pat_tokens = <<>> THEN <<TRUE>> ELSE [t \in 1..Len(ev.pat_tokens) |-> ev.pat_tokens[t] = "1"]
  IN Ch!Puncture(En!Encode(enc, msg), P)
EncodeOK(ev) ==
  /\ ev.o = "ok" /\ Len(ev.ref) > 0 /\ ev.out = ev.ref
  /\ ((ev.hrows # <<>> /\ ~ev.nonbit /\ Len(ev.bits) = ev.hn - Len(ev.hrows)) => ev.out = SpecCodeword(ev))

EvOK(ev) == CASE ev.e = "Ctor" -> CtorOK(ev) [] ev.e = "Decode" -> DecodeOK(ev) [] ev.e = "Encode" -> EncodeOK(ev) [] OTHER -> FALSE

Init == l = 1
Step == /\ l <= NRec
        /\ IF EvOK(Rec[l]) THEN l' = l + 1 ELSE Reject(l, "C19") /\ l' = Rec[l].nx
Fin  == l = NRec + 1 /\ Done(l) /\ l' = l + 1
Next == Step \/ Fin
=============================================================================
