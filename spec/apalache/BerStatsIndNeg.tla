---------------------------- MODULE BerStatsIndNeg ----------------------------
(***************************************************************************)
(* Unbounded counterpart of StatsExact / StopExact (C13) for Apalache:     *)
(* the collector's accumulation rule with an UNBOUNDED number of frames    *)
(* and a symbolic target.  IndInv is inductive:                            *)
(*    Init => IndInv            (apalache-mc check --length=0)             *)
(*    IndInv /\ Next => IndInv' (apalache-mc check --init=IndInv --length=1)*)
(* Outcomes are abstracted to their class: good (no bit error), bad1       *)
(* (b1 >= 1 bit errors, decoder said Err), bad3 (b3 >= 1 bit errors,       *)
(* decoder said Ok = false decode).  nG, nB1, nB3 count consumed frames.   *)
(***************************************************************************)
EXTENDS Integers

CONSTANTS
  \* @type: Int;
  Target,
  \* @type: Int;
  B1,
  \* @type: Int;
  B3

VARIABLES
  \* @type: Int;
  frames,
  \* @type: Int;
  ferr,
  \* @type: Int;
  fdec,
  \* @type: Int;
  berr,
  \* @type: Int;
  nG,
  \* @type: Int;
  nB1,
  \* @type: Int;
  nB3,
  \* @type: Bool;
  stopped

ConstInit == Target \in 1..1000 /\ B1 \in 1..64 /\ B3 \in 1..64

Init == frames = 0 /\ ferr = 0 /\ fdec = 0 /\ berr = 0 /\ nG = 0 /\ nB1 = 0 /\ nB3 = 0 /\ stopped = FALSE

Consume(cls) ==
  /\ ~stopped /\ ferr < Target                       \* while errors_for_termination() < max_frame_errors
  /\ frames' = frames + 1
  /\ ferr' = ferr + (IF cls = "good" THEN 0 ELSE 1)
  /\ fdec' = fdec + (IF cls = "good" THEN 0 ELSE 1)
  /\ berr' = berr + (IF cls = "good" THEN 0 ELSE IF cls = "bad1" THEN B1 ELSE B3)
  /\ nG' = nG + (IF cls = "good" THEN 1 ELSE 0)
  /\ nB1' = nB1 + (IF cls = "bad1" THEN 1 ELSE 0)
  /\ nB3' = nB3 + (IF cls = "bad3" THEN 1 ELSE 0)
  /\ UNCHANGED stopped
Stop == ~stopped /\ ferr >= Target /\ stopped' = TRUE /\ UNCHANGED <<frames, ferr, fdec, berr, nG, nB1, nB3>>
Stutter == UNCHANGED <<frames, ferr, fdec, berr, nG, nB1, nB3, stopped>>
Next == Consume("good") \/ Consume("bad1") \/ Consume("bad3") \/ Stop \/ Stutter

\* StatsExact: the counters are exactly the sums over the consumed whole frames; StopExact: never past the target,
\* and exactly the target once stopped
IndInv ==
  /\ nG >= 0 /\ nB1 >= 0 /\ nB3 >= 0
  /\ frames = nG + nB1 + nB3
  /\ ferr = nB1 + nB3
  /\ fdec = nB3
  /\ berr = nB1 * B1 + nB3 * B3
  /\ ferr <= Target
  /\ (stopped => ferr = Target)
  /\ Target \in 1..1000 /\ B1 \in 1..64 /\ B3 \in 1..64
\* Apalache wants every variable assigned from a set before it is constrained
IndInit ==
  /\ nG \in Nat /\ nB1 \in Nat /\ nB3 \in Nat
  /\ frames \in Int /\ ferr \in Int /\ fdec \in Int /\ berr \in Int
  /\ stopped \in BOOLEAN
  /\ IndInv
=============================================================================
