----------------------------- MODULE SparseIndNeg ----------------------------
(***************************************************************************)
(* Inductive counterpart of MC_Sparse (C17) for Apalache: the two mirrored *)
(* adjacency lists of src/sparse.rs with SYMBOLIC dimensions (NR, NC in    *)
(* 1..3, every list content) and histories of UNBOUNDED length.            *)
(*    Init => IndInv             (apalache-mc check --length=0)            *)
(*    IndInv /\ Next => IndInv'  (--init=IndInit --length=1)               *)
(* IndInv = TypeOK /\ NoDup /\ Mirror /\ Refinement (S is the set of       *)
(* positions the lists spell).  The single-cell and clear operations are   *)
(* the primitive steps; insert_row / insert_col / set_row / set_col are    *)
(* finite compositions of them in the code (a loop over `insert' after an  *)
(* optional `clear'), so an invariant of the primitives is an invariant of *)
(* the bulk operations.                                                    *)
(* Indices are 0-based, as in the code; sequences are 1-based.             *)
(***************************************************************************)
EXTENDS Integers, Sequences, Apalache

CONSTANTS
  \* @type: Int;
  NR,
  \* @type: Int;
  NC

VARIABLES
  \* @type: Int -> Seq(Int);
  rows,
  \* @type: Int -> Seq(Int);
  cols,
  \* @type: Set(<<Int, Int>>);
  S

ConstInit == NR \in 1..3 /\ NC \in 1..3

RowIdx == { r \in 0..2 : r < NR }
ColIdx == { c \in 0..2 : c < NC }

\* @type: Seq(Int);
Empty == <<>>

\* @type: (Seq(Int), Int) => Bool;
Has(s, x) == \E k \in DOMAIN s : s[k] = x
\* @type: Seq(Int) => Bool;
NoDup(s) == \A a, b \in DOMAIN s : s[a] = s[b] => a = b
\* @type: (Seq(Int), Int) => Seq(Int);
Without(s, x) == LET Keep(y) == y # x IN SelectSeq(s, Keep)

Init == /\ rows = [r \in RowIdx |-> Empty]
        /\ cols = [c \in ColIdx |-> Empty]
        /\ S = {}

\* insert: `if !self.contains(row, col)' (searched in the column list) push on both lists
Insert(r, c) ==
  IF Has(cols[c], r)
  THEN UNCHANGED <<rows, cols, S>>
  ELSE /\ rows' = [rows EXCEPT ![r] = Append(rows[r], c)]
       /\ cols' = [cols EXCEPT ![c] = Append(cols[c], r)]
       /\ S' = S \union {<<r, c>>}

\* remove: retain on both lists
Remove(r, c) ==
  /\ rows' = [rows EXCEPT ![r] = Without(rows[r], c)]
  /\ cols' = [cols EXCEPT ![c] = Without(cols[c], r)]
  /\ S' = S \ {<<r, c>>}

Toggle(r, c) == IF Has(cols[c], r) THEN Remove(r, c) ELSE Insert(r, c)

\* clear_row: walk rows[r], retain in each of those columns, then empty the row
ClearRow(r) ==
  /\ cols' = [c \in ColIdx |-> IF Has(rows[r], c) /\ c # r THEN Without(cols[c], r) ELSE cols[c]]   \* SEEDED FLAW: the diagonal entry is left in its column
  /\ rows' = [rows EXCEPT ![r] = Empty]
  /\ S' = { p \in S : p[1] # r }

ClearCol(c) ==
  /\ rows' = [r \in RowIdx |-> IF Has(cols[c], r) THEN Without(rows[r], c) ELSE rows[r]]
  /\ cols' = [cols EXCEPT ![c] = Empty]
  /\ S' = { p \in S : p[2] # c }

Stutter == UNCHANGED <<rows, cols, S>>

Next ==
  \/ \E r \in RowIdx, c \in ColIdx : Insert(r, c) \/ Remove(r, c) \/ Toggle(r, c)
  \/ \E r \in RowIdx : ClearRow(r)
  \/ \E c \in ColIdx : ClearCol(c)
  \/ Stutter

TypeOK ==
  /\ NR \in 1..3 /\ NC \in 1..3
  /\ DOMAIN rows = RowIdx /\ DOMAIN cols = ColIdx
  /\ \A r \in RowIdx : \A k \in DOMAIN rows[r] : rows[r][k] \in ColIdx
  /\ \A c \in ColIdx : \A k \in DOMAIN cols[c] : cols[c][k] \in RowIdx

NoDupAll == (\A r \in RowIdx : NoDup(rows[r])) /\ (\A c \in ColIdx : NoDup(cols[c]))
Mirror   == \A r \in RowIdx, c \in ColIdx : Has(rows[r], c) <=> Has(cols[c], r)
Refines  == S = { p \in RowIdx \X ColIdx : Has(rows[p[1]], p[2]) }

IndInv == TypeOK /\ NoDupAll /\ Mirror /\ Refines

\* every state satisfying IndInv has lists of length <= 3 (no duplicates, entries in 0..2), so Gen(3) loses nothing
IndInit == rows = Gen(3) /\ cols = Gen(3) /\ S = Gen(9) /\ IndInv
=============================================================================
