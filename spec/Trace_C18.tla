----------------------------- MODULE Trace_C18 -----------------------------
(***************************************************************************)
(* C18.  Events (one case each):                                           *)
(*  Name {str, hl, rest, parse_ok, show, clap, capi, cli} per documented name*)
(*  Variants {names}           clap's value list                           *)
(*  NonMember {str, parse_ok}  strings that are not names                  *)
(*  Table {behave:[{str,hl,rest,fp}], direct:[{arith,hl,fp}], family}      *)
(*     fp = fingerprint (digest) of the results of a decoder on a family   *)
(*     of (matrix, LLRs, limit) inputs: `behave' for decoders built by the *)
(*     factory from the name, `direct' for generic decoders constructed    *)
(*     directly from the arithmetic type and schedule.                     *)
(***************************************************************************)
EXTENDS TraceKit, Factory

VARIABLES l
vars == <<l>>

NameOK(ev) ==
  /\ ev.o = "ok"
  /\ <<ev.hl, ev.rest>> \in Documented /\ ev.str = NameOf(<<ev.hl, ev.rest>>)
  /\ ev.parse_ok                      \* parses from its string
  /\ ev.show = ev.str                 \* prints back to the identical string
  /\ ev.clap = ev.str                 \* offered by the command-line value list under exactly that string
  /\ ev.capi = "handle"               \* and accepted by the C constructor (src/c_api/decoder.rs)
  /\ ev.cli = ev.str                  \* `ber --decoder <str>' through the real clap parser selects the implementation of that name

VariantsOK(ev) == ev.o = "ok" /\ Len(ev.names) = 36 /\ SeqToSet(ev.names) = Names

NonMemberOK(ev) == ev.o = "ok" /\ ev.str \notin Names /\ ~ev.parse_ok /\ ev.capi \in {"null", "na"}   \* rejected by FromStr and by the C constructor
                   /\ ev.cli = ""                                        \* and by the command line (no case folding, no prefix matching)

TableOK(ev) ==
  /\ ev.o = "ok"
  /\ { <<ev.behave[k].hl, ev.behave[k].rest>> : k \in 1..Len(ev.behave) } = Documented
  /\ { <<ev.direct[k].hl, ev.direct[k].arith>> : k \in 1..Len(ev.direct) } = { <<h, a>> : h \in BOOLEAN, a \in Arithmetics }
  \* each name builds a decoder that behaves exactly like the directly constructed generic decoder it names
  /\ \A k \in 1..Len(ev.behave) : \A j \in 1..Len(ev.direct) :
        (ev.direct[j].hl = ev.behave[k].hl /\ ev.direct[j].arith = ev.behave[k].rest) => ev.behave[k].fp = ev.direct[j].fp
  \* the family separates the 36 documented decoders (otherwise equality above would be weak evidence)
  /\ ev.unseparated = 0 =>
       \A j1, j2 \in 1..Len(ev.direct) :
          (j1 # j2 /\ <<ev.direct[j1].hl, ev.direct[j1].arith>> \in Documented /\ <<ev.direct[j2].hl, ev.direct[j2].arith>> \in Documented)
             => ev.direct[j1].fp # ev.direct[j2].fp

EvOK(ev) == CASE ev.e = "Name" -> NameOK(ev) [] ev.e = "Variants" -> VariantsOK(ev)
              [] ev.e = "NonMember" -> NonMemberOK(ev) [] ev.e = "Table" -> TableOK(ev) [] OTHER -> FALSE

Init == l = 1
Step == /\ l <= NRec
        /\ IF EvOK(Rec[l]) THEN l' = l + 1 ELSE Reject(l, "C18") /\ l' = Rec[l].nx
Fin  == l = NRec + 1 /\ Done(l) /\ l' = l + 1
Next == Step \/ Fin
=============================================================================
