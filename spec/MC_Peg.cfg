CONSTANTS NR = 3 NC = 4 WC = 2
INIT Init
NEXT Next
INVARIANTS Legal
CHECK_DEADLOCK FALSE
