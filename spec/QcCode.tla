------------------------------- MODULE QcCode -------------------------------
(***************************************************************************)
(* DVB-S2 LDPC codes (ETSI EN 302 307-1 section 5.3.2), C06.               *)
(* A code is given by n, k, the group size L = 360, q = (n-k)/L and, per   *)
(* group of L information columns, a set of base addresses:                *)
(*   information column g*L + t has ones in rows (x + t*q) mod (n-k),      *)
(*   x in Addr[g];  parity column p has ones in rows p and p+1 (dual       *)
(*   diagonal; the last one only in row n-k-1).                            *)
(* The constants below are typed from the standard (Tables 5a/5b, degree   *)
(* distributions), NOT read from the implementation.                       *)
(***************************************************************************)
EXTENDS Integers, Sequences, FiniteSets

L == 360
\* code -> [n, k, profile]; profile = set of <<column degree, number of information columns>>
Table == [
  R1_4  |-> [n |-> 64800, k |-> 16200, prof |-> {<<12, 5400>>, <<3, 10800>>}],
  R1_3  |-> [n |-> 64800, k |-> 21600, prof |-> {<<12, 7200>>, <<3, 14400>>}],
  R2_5  |-> [n |-> 64800, k |-> 25920, prof |-> {<<12, 8640>>, <<3, 17280>>}],
  R1_2  |-> [n |-> 64800, k |-> 32400, prof |-> {<<8, 12960>>, <<3, 19440>>}],
  R3_5  |-> [n |-> 64800, k |-> 38880, prof |-> {<<12, 12960>>, <<3, 25920>>}],
  R2_3  |-> [n |-> 64800, k |-> 43200, prof |-> {<<13, 4320>>, <<3, 38880>>}],
  R3_4  |-> [n |-> 64800, k |-> 48600, prof |-> {<<12, 5400>>, <<3, 43200>>}],
  R4_5  |-> [n |-> 64800, k |-> 51840, prof |-> {<<11, 6480>>, <<3, 45360>>}],
  R5_6  |-> [n |-> 64800, k |-> 54000, prof |-> {<<13, 5400>>, <<3, 48600>>}],
  R8_9  |-> [n |-> 64800, k |-> 57600, prof |-> {<<4, 7200>>, <<3, 50400>>}],
  R9_10 |-> [n |-> 64800, k |-> 58320, prof |-> {<<4, 6480>>, <<3, 51840>>}],
  R1_4short |-> [n |-> 16200, k |-> 3240,  prof |-> {<<12, 1440>>, <<3, 1800>>}],
  R1_3short |-> [n |-> 16200, k |-> 5400,  prof |-> {<<12, 1800>>, <<3, 3600>>}],
  R2_5short |-> [n |-> 16200, k |-> 6480,  prof |-> {<<12, 2160>>, <<3, 4320>>}],
  R1_2short |-> [n |-> 16200, k |-> 7200,  prof |-> {<<8, 1800>>, <<3, 5400>>}],
  R3_5short |-> [n |-> 16200, k |-> 9720,  prof |-> {<<12, 3240>>, <<3, 6480>>}],
  R2_3short |-> [n |-> 16200, k |-> 10800, prof |-> {<<13, 1080>>, <<3, 9720>>}],
  R3_4short |-> [n |-> 16200, k |-> 11880, prof |-> {<<12, 360>>, <<3, 11520>>}],
  R4_5short |-> [n |-> 16200, k |-> 12600, prof |-> {<<3, 12600>>}],
  R5_6short |-> [n |-> 16200, k |-> 13320, prof |-> {<<13, 360>>, <<3, 12960>>}],
  R8_9short |-> [n |-> 16200, k |-> 14400, prof |-> {<<4, 1800>>, <<3, 12600>>}] ]
CodeNames == DOMAIN Table
M(c) == Table[c].n - Table[c].k
Q(c) == M(c) \div L
ASSUME Cardinality(CodeNames) = 21
ASSUME \A c \in CodeNames : M(c) = L * Q(c)                                   \* m = 360 q for every code
ASSUME \A c \in CodeNames : LET S == Table[c].prof IN                         \* profiles account for exactly k columns
          LET RECURSIVE Sum(_) Sum(T) == IF T = {} THEN 0 ELSE LET p == CHOOSE x \in T : TRUE IN p[2] + Sum(T \ {p}) IN Sum(S) = Table[c].k

\* ---- the construction law, for arbitrary (group size l, shift q, m = l*q) so that TLC can check it on small instances
InfoCol(addr, t, q, m) == { (x + t * q) % m : x \in addr }
ParityCol(p, m) == IF p + 1 < m THEN {p, p + 1} ELSE {p}

\* ---- no 4-cycle, decided from the base addresses alone (DESIGN.md A.2):
\* two information columns (g1,t1), (g2,t2) share the row x1 + t1 q = x2 + t2 q  iff  x1 - x2 = (t2 - t1) q (mod m);
\* they share TWO rows iff two different address pairs give the same shift d = t2 - t1 (mod l)
ShiftOf(x1, x2, q, m) == ((x1 - x2) % m) \div q
PairsAtShift(A1, A2, same, q, m) ==
  { p \in A1 \X A2 : ((p[1] - p[2]) % m) % q = 0 /\ ~(same /\ p[1] = p[2]) }
InfoFourCycle(addrs, q, m) ==
  \E g1, g2 \in 1..Len(addrs) :
     /\ g1 <= g2
     /\ LET P == PairsAtShift(addrs[g1], addrs[g2], g1 = g2, q, m) IN
        Cardinality({ ShiftOf(p[1], p[2], q, m) : p \in P }) < Cardinality(P)
\* an information column shares two rows with a parity column iff two of its addresses are consecutive mod m
StairFourCycle(addrs, m) == \E g \in 1..Len(addrs) : \E x, y \in addrs[g] : (x + 1) % m = y
NoFourCycle(addrs, q, m) == ~InfoFourCycle(addrs, q, m) /\ ~StairFourCycle(addrs, m)
=============================================================================
