CONSTANTS Dom <- DomT MaxLimit = 3 MaxCalls = 1 ResetOutputC = TRUE
INIT Init
NEXT Next
INVARIANTS C01Inv C10Inv C03Exact
CHECK_DEADLOCK FALSE
