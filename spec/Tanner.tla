------------------------------- MODULE Tanner -------------------------------
(***************************************************************************)
(* The Tanner graph of a sparse binary matrix and the graph quantities     *)
(* property C11 speaks about, DECLARATIVELY (no queue, no visiting order): *)
(* distances by frontier expansion, local girth by node deletion, girth as *)
(* the minimum local girth.  Nodes are integers: row i -> i, column j ->   *)
(* nr + j.  "None" is -1; an absent bound is -1.                           *)
(***************************************************************************)
EXTENDS Integers, Sequences, FiniteSets

MinOf(S) == CHOOSE x \in S : \A y \in S : x <= y
MaxOf(S) == CHOOSE x \in S : \A y \in S : x >= y

NodesOf(nr, nc) == 0..(nr + nc - 1)
RowNode(i) == i
ColNode(nr, j) == nr + j

\* rows: adjacency lists of 0-based column indices (duplicates irrelevant)
Adj(rows, nr, nc) ==
  [v \in NodesOf(nr, nc) |->
     IF v < nr THEN { nr + rows[v + 1][t] : t \in 1..Len(rows[v + 1]) }
     ELSE { i \in 0..nr-1 : \E t \in 1..Len(rows[i + 1]) : rows[i + 1][t] = v - nr }]

RECURSIVE Expand(_, _, _, _)
Expand(adj, frontier, dist, d) ==
  LET nxt == { w \in UNION { adj[v] : v \in frontier } : dist[w] = -1 } IN
  IF nxt = {} THEN dist
  ELSE Expand(adj, nxt, [v \in DOMAIN dist |-> IF v \in nxt THEN d ELSE dist[v]], d + 1)

\* shortest-path length from s to every node (-1 = unreachable)
DistFrom(adj, s) == Expand(adj, {s}, [v \in DOMAIN adj |-> IF v = s THEN 0 ELSE -1], 1)

Without(adj, v) == [u \in DOMAIN adj |-> IF u = v THEN {} ELSE adj[u] \ {v}]

\* length of the shortest cycle through v: two distinct neighbours a, b of v joined by a
\* shortest path that avoids v
LocalGirth(adj, v) ==
  LET g2 == Without(adj, v)
      cands == UNION { LET da == DistFrom(g2, a) IN { da[b] + 2 : b \in { x \in adj[v] : x # a /\ da[x] # -1 } } : a \in adj[v] }
  IN IF cands = {} THEN -1 ELSE MinOf(cands)

Girth(adj) ==
  LET gs == { LocalGirth(adj, v) : v \in DOMAIN adj } \ {-1} IN
  IF gs = {} THEN -1 ELSE MinOf(gs)

\* "reports it exactly when it does not exceed the bound"
Bounded(g, max) == IF g # -1 /\ (max = -1 \/ g <= max) THEN g ELSE -1

IsForest(adj) == Girth(adj) = -1
HasFourCycle(adj) == Girth(adj) = 4
=============================================================================
