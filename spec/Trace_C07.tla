----------------------------- MODULE Trace_C07 -----------------------------
(***************************************************************************)
(* C07: one event per CCSDS code carrying the REAL matrix (row adjacency). *)
(*  Ar4ja / C2 {code, M, nrows, ncols, rows, colw, rank, tail_rank, enc,   *)
(*              girth_checked, four_cycle, cyc6, sha, pin}                 *)
(*  Ar4jaLite {code, nrows, ncols, colw, sha, pin}   k = 16384, quick tier   *)
(*  rank / tail_rank : GF(2) ranks from the harness's bit-packed           *)
(*     elimination (oracle); four_cycle : oracle column-pair test; cyc6 :  *)
(*     a 6-cycle <<c1,r1,c2,r2,c3,r3>> whose edges TLC verifies in `rows'  *)
(***************************************************************************)
EXTENDS TraceKit, Ccsds

VARIABLES l
vars == <<l>>

Has(rows, r, c) == \E t \in 1..Len(rows[r + 1]) : rows[r + 1][t] = c
Cyc6OK(ev) ==
  LET w == ev.cyc6 IN
  /\ Len(w) = 6 /\ w[1] # w[3] /\ w[3] # w[5] /\ w[1] # w[5] /\ w[2] # w[4] /\ w[4] # w[6] /\ w[2] # w[6]
  /\ Has(ev.rows, w[2], w[1]) /\ Has(ev.rows, w[2], w[3]) /\ Has(ev.rows, w[4], w[3])
  /\ Has(ev.rows, w[4], w[5]) /\ Has(ev.rows, w[6], w[5]) /\ Has(ev.rows, w[6], w[1])
GirthSixOK(ev) == ev.girth_checked /\ ~ev.four_cycle /\ Cyc6OK(ev)
EncOK(ev) == ev.enc.acc /\ ev.enc.syn_ok /\ ev.enc.prefix_ok

Ar4jaOK(ev) ==
  /\ ev.o = "ok" /\ ev.code \in Ar4jaNames
  /\ LET c == ev.code  Mx == MTable[c]  rate == RateOf[c] IN
     /\ ev.nrows = 3 * Mx /\ ev.ncols = KTable[c] + 3 * Mx /\ Len(ev.rows) = ev.nrows     \* 3M x (k + 3M), M from the Blue Book table
     /\ NoDupRows(ev.rows)
     /\ CellWeightsOK(ev.rows, rate, Mx)                                                  \* protograph cell by cell
     /\ \A col \in 0..(ev.ncols - 1) : ev.colw[col + 1] = BlockColDegree(rate, (col \div Mx) + 1)   \* block-column degrees
     /\ CirculantOK(ev.rows, ev.nrows, Mx \div 4)                                         \* M/4-circulant sub-blocks
     /\ ev.rank = 3 * Mx /\ ev.tail_rank = 3 * Mx                                         \* full row rank; invertible last 3M columns
     /\ EncOK(ev)
     /\ (c = "R1_2_K1024" => GirthSixOK(ev))                                              \* documented girth 6
     /\ ev.sha = ev.pin

\* quick tier, k = 16384: size, block-column degrees and the pinned digest (the full event is checked in the thorough tier)
Ar4jaLiteOK(ev) ==
  /\ ev.o = "ok" /\ ev.code \in Ar4jaNames
  /\ LET c == ev.code  Mx == MTable[c]  rate == RateOf[c] IN
     /\ ev.nrows = 3 * Mx /\ ev.ncols = KTable[c] + 3 * Mx
     /\ \A col \in 0..(ev.ncols - 1) : ev.colw[col + 1] = BlockColDegree(rate, (col \div Mx) + 1)
     /\ ev.sha = ev.pin

C2EvOK(ev) ==
  /\ ev.o = "ok" /\ ev.nrows = 1022 /\ ev.ncols = 8176
  /\ NoDupRows(ev.rows) /\ C2OK(ev.rows, ev.colw)
  /\ ev.rank = 1020                                    \* (8176, 7156): 8176 - 1020 = 7156
  /\ GirthSixOK(ev)
  /\ ev.sha = ev.pin

EvOK(ev) == CASE ev.e = "Ar4ja" -> Ar4jaOK(ev) [] ev.e = "Ar4jaLite" -> Ar4jaLiteOK(ev) [] ev.e = "C2" -> C2EvOK(ev) [] OTHER -> FALSE

Init == l = 1
Step == /\ l <= NRec
        /\ IF EvOK(Rec[l]) THEN l' = l + 1 ELSE Reject(l, "C07") /\ l' = Rec[l].nx
Fin  == l = NRec + 1 /\ Done(l) /\ l' = l + 1
Next == Step \/ Fin
=============================================================================
