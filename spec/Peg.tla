-------------------------------- MODULE Peg --------------------------------
(***************************************************************************)
(* src/peg.rs (C16): progressive edge growth.  Edge by edge: a BFS from    *)
(* the current column gives the distance of every check; the new edge goes *)
(* to a check that is unreachable (or, if every check is reachable, at     *)
(* maximal distance) and, among those, of least degree.  `cols' = sequence *)
(* of SEQUENCES of row indices (insertion order) of the columns so far.    *)
(***************************************************************************)
EXTENDS MacKayNeal

ColSets(cols) == [j \in 1..Len(cols) |-> { cols[j][t] : t \in 1..Len(cols[j]) }]
\* the checks an edge from column index `c' (0-based) may be placed on, given the graph `sets' (column sets, the
\* current column included with the edges it already has)
EdgeCandidates(sets, nr, nc, c) ==
  LET adj  == AdjOf(sets, nr, nc)
      d    == DistFrom(adj, nr + c)
      rows == 0..nr-1
      far  == IF \E r \in rows : d[r] = -1 THEN { r \in rows : d[r] = -1 }
              ELSE { r \in rows : \A q \in rows : d[q] <= d[r] }
  IN { r \in far : \A q \in far : RowWeight(sets, r) <= RowWeight(sets, q) }

\* the edges of one column, in the given order, each satisfied the guard at its insertion time
RECURSIVE EdgesLegal(_, _, _, _, _, _)
EdgesLegal(prevSets, edges, t, nr, nc, placed) ==
  IF t > Len(edges) THEN TRUE
  ELSE LET sets == Append(prevSets, placed) IN
       /\ edges[t] \in EdgeCandidates(sets, nr, nc, Len(prevSets))
       /\ EdgesLegal(prevSets, edges, t + 1, nr, nc, placed \cup {edges[t]})

Perms(s) == { p \in [1..Len(s) -> 1..Len(s)] : \A a, b \in 1..Len(s) : p[a] = p[b] => a = b }
\* the recorded order inside a column is only a hint: SOME order of its edges must satisfy the guards
ColumnLegalPeg(prevSets, edges, nr, nc, wc) ==
  /\ Len(edges) = (IF wc <= nr THEN wc ELSE nr)                                  \* column weight min(wc, rows)
  /\ \A a, b \in 1..Len(edges) : edges[a] = edges[b] => a = b
  /\ \/ EdgesLegal(prevSets, edges, 1, nr, nc, {})
     \/ \E p \in Perms(edges) : EdgesLegal(prevSets, [t \in 1..Len(edges) |-> edges[p[t]]], 1, nr, nc, {})
=============================================================================
