----------------------------- MODULE MacKayNeal -----------------------------
(***************************************************************************)
(* src/mackay_neal.rs (C16): column-by-column pseudorandom construction.   *)
(* The RNG is replaced by nondeterministic choice.  A matrix under         *)
(* construction is `cols': a sequence of sets of row indices (0-based),    *)
(* one per finished column.                                                *)
(*                                                                         *)
(* Property-level operators (used by Trace_C16 on real results):           *)
(*   ColumnLegal : the guard under which a column may have been inserted   *)
(*   ResultOK    : what a successful run guarantees                        *)
(* Implementation-shaped machine (MC_MacKayNeal): TryInsert / GirthReject  *)
(* / Backtrack / Abort exactly as run() sequences them.                    *)
(***************************************************************************)
EXTENDS Tanner

RowWeight(cols, r) == Cardinality({ j \in 1..Len(cols) : r \in cols[j] })
Avail(cols, nr, wr) == { r \in 0..nr-1 : RowWeight(cols, r) < wr }
\* rows adjacency (as sequences, any order) of a column-set matrix, for Tanner!Adj
RECURSIVE SetSeq(_)
SetSeq(S) == IF S = {} THEN <<>> ELSE LET x == CHOOSE y \in S : TRUE IN <<x>> \o SetSeq(S \ {x})
RowsOf(cols, nr) == [i \in 1..nr |-> SetSeq({ j - 1 : j \in { t \in 1..Len(cols) : (i - 1) \in cols[t] } })]
AdjOf(cols, nr, nc) == Adj(RowsOf(cols, nr), nr, nc)

\* the column S may be appended to `prev' (finished columns) under the configuration
ColumnLegal(prev, S, nr, nc, wr, wc, uniform, minGirth) ==
  /\ Cardinality(S) = wc /\ S \subseteq Avail(prev, nr, wr)
  /\ (uniform => \A a \in S : \A b \in Avail(prev, nr, wr) \ S : RowWeight(prev, a) <= RowWeight(prev, b))
  /\ (minGirth # -1 =>
        LET g == LocalGirth(AdjOf(Append(prev, S), nr, nc), nr + Len(prev)) IN g = -1 \/ g >= minGirth)

ResultOK(cols, nr, nc, wr, wc, uniform, minGirth) ==
  /\ Len(cols) = nc
  /\ \A j \in 1..nc : Cardinality(cols[j]) = wc /\ cols[j] \subseteq 0..nr-1          \* exactly the requested column weight
  /\ \A r \in 0..nr-1 : RowWeight(cols, r) <= wr                                     \* no row exceeds the maximum row weight
  /\ (minGirth # -1 => LET g == Girth(AdjOf(cols, nr, nc)) IN g = -1 \/ g >= minGirth)
  /\ (uniform /\ minGirth = -1 =>
        \A a, b \in 0..nr-1 : RowWeight(cols, a) - RowWeight(cols, b) <= 1)          \* row weights differ by at most one
=============================================================================
