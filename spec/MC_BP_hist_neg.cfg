CONSTANTS Dom <- DomH MaxLimit = 1 MaxCalls = 2 ResetOutputC = FALSE
INIT Init
NEXT Next
INVARIANTS C10Inv
CHECK_DEADLOCK FALSE
