CONSTANTS RMax = 3 CMax = 3 RangeCheck = FALSE SaturatingPad = TRUE
INIT Init
NEXT Next
INVARIANTS NoPanic
CHECK_DEADLOCK FALSE
