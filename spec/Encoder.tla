------------------------------ MODULE Encoder ------------------------------
(***************************************************************************)
(* src/encoder.rs + src/encoder/staircase.rs.  H is r x n dense (GF2.tla), *)
(* H = [H0 H1] with H1 the last r columns.                                 *)
(*  property level (C02):  FromHOK, EncOK, Linear                          *)
(*  implementation level:  IsStaircase, the two arms of from_h / encode    *)
(***************************************************************************)
EXTENDS Linalg

\* staircase.rs: every one of the parity part lies on the main diagonal of H1 or on the
\* diagonal below it, and there are exactly 2r-1 of them
IsStaircase(H) ==
  LET r == Len(H) n == NCols(H)
      ones == { <<j, k>> \in (1..r) \X (n-r+1..n) : H[j][k] = 1 }      \* 1-based
  IN /\ \A p \in ones : LET j == p[1] k == p[2] - (n - r) IN           \* k: column inside H1
                           IF j = 1 THEN k = 1 ELSE k = j - 1 \/ k = j
     /\ Cardinality(ones) = 2 * r - 1

\* dense arm: A = [H1 H0], Gauss-Jordan, G = A[:, r..]
Rearranged(H) == LET r == Len(H) n == NCols(H) IN
  [j \in 1..r |-> [t \in 1..n |-> IF t <= r THEN H[j][n - r + t] ELSE H[j][t - r]]]
DenseArm(H) == LET g == GaussReduction(Rearranged(H)) r == Len(H) n == NCols(H) IN
  IF g.ok THEN [ok |-> TRUE, kind |-> "dense", gen |-> [j \in 1..r |-> [t \in 1..n - r |-> g.a[j][r + t]]]]
  ELSE [ok |-> FALSE, kind |-> "dense", gen |-> <<>>]
StaircaseArm(H) == [ok |-> TRUE, kind |-> "staircase", gen |-> HeadM(H)]
FromH(H) == IF IsStaircase(H) THEN StaircaseArm(H) ELSE DenseArm(H)

RECURSIVE Accumulate(_, _)
Accumulate(p, j) == IF j = 0 THEN <<>> ELSE
                    LET prev == Accumulate(p, j - 1) IN
                    Append(prev, IF j = 1 THEN p[1] ELSE Add(p[j], prev[j - 1]))
Parity(enc, msg) == IF enc.kind = "dense" THEN MatVec(enc.gen, msg)
                    ELSE LET p0 == MatVec(enc.gen, msg) IN Accumulate(p0, Len(p0))
Encode(enc, msg) == msg \o Parity(enc, msg)

-----------------------------------------------------------------------------
(* Property level *)
FromHOK(H, accepted) == accepted <=> Invertible(TailM(H))
EncOK(H, msg, c) ==
  LET r == Len(H) n == NCols(H) IN
  /\ Len(c) = n /\ \A t \in 1..n : c[t] \in Bit
  /\ SubSeq(c, 1, n - r) = msg
  /\ MatVec(H, c) = ZeroVec(r)
=============================================================================
