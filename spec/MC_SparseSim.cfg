CONSTANTS NR = 3 NC = 3 MaxBulk = 3 Depth = 30
INIT InitS
NEXT NextS
INVARIANTS Mirror NoDups Refines
CHECK_DEADLOCK FALSE
