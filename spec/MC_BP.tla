------------------------------- MODULE MC_BP -------------------------------
(***************************************************************************)
(* Design-level checks of BP.tla with exact integer min-sum:               *)
(*  C01  : C01Rel holds for every result of both schedules                 *)
(*  C03  : on forests (check degree >= 2) the LLRs after #checks+1 forced  *)
(*         iterations equal the tropical posterior                         *)
(*             MinCost(v,1) - MinCost(v,0),                                *)
(*         MinCost(v,b) = min over codewords x with x_v = b of sum x_i*l_i *)
(*  C10  : a call on a used decoder object returns what a fresh one returns*)
(*         (histories of up to MaxCalls calls)                             *)
(* Small graphs x every LLR vector over Dom x limits 0..MaxLimit.          *)
(***************************************************************************)
EXTENDS MinSum, TLC

CONSTANTS Dom, MaxLimit, MaxCalls, ResetOutputC

DomQ == {-2, -1, 0, 1}
DomT == {-2, -1, 0, 1, 2}
DomH == {-1, 2}

B == INSTANCE BP WITH Quant <- MSQuant, Hard <- MSHard, CheckMsg <- MSCheckMsg, VarTotal <- MSVarTotal,
                      VarMsg <- MSVarMsg, ToMsg <- MSToMsg, ZeroMsg <- 0, ResetOutput <- ResetOutputC

\* name, rows, n, forest?
Graphs == {
  [name |-> "chain2x3", rows |-> << <<0, 1>>, <<1, 2>> >>, n |-> 3, forest |-> TRUE],
  [name |-> "tree3x4",  rows |-> << <<0, 1>>, <<1, 2, 3>>, <<3, 0>> >>, n |-> 4, forest |-> FALSE],   \* 6-cycle
  [name |-> "star3x5",  rows |-> << <<0, 1, 2>>, <<2, 3>>, <<2, 4>> >>, n |-> 5, forest |-> TRUE],
  [name |-> "cyc4deg1", rows |-> << <<0, 1, 2>>, <<0, 1>> >>, n |-> 3, forest |-> FALSE],              \* 4-cycle + degree-1 variable
  [name |-> "twocomp",  rows |-> << <<0, 1>>, <<2, 3>> >>, n |-> 4, forest |-> TRUE],
  [name |-> "deg1chk",  rows |-> << <<1>>, <<0, 1, 2>> >>, n |-> 3, forest |-> FALSE]                 \* a check of degree one
}

VARIABLES g, sched, st, calls, last
vars == <<g, sched, st, calls, last>>

Init == /\ g \in Graphs /\ sched \in {"flooding", "layered"}
        /\ st = B!Fresh(sched, g.rows, g.n) /\ calls = 0
        /\ last = [llrs |-> <<>>, limit |-> 0, res |-> <<>>]

Call(llrs, limit) ==
  LET d == B!Decode(sched, g.rows, st, llrs, limit) IN
  /\ calls < MaxCalls /\ calls' = calls + 1
  /\ st' = d.st /\ last' = [llrs |-> llrs, limit |-> limit, res |-> d.res]
  /\ UNCHANGED <<g, sched>>

Next == \E llrs \in [1..g.n -> Dom] : \E limit \in 0..MaxLimit : Call(llrs, limit)
Spec == Init /\ [][Next]_vars

\* C01
C01Inv == calls > 0 => B!C01Rel(g.rows, g.n, B!HardIn(last.llrs), last.limit, last.res)
\* C10
C10Inv == calls > 0 => last.res = B!FreshResult(sched, g.rows, g.n, last.llrs, last.limit)

\* C03 exactness in the tropical semiring (first call only: evaluated on fresh objects)
Codewords == { x \in [1..g.n -> {0, 1}] : B!SynZero(g.rows, x) }
Cost(x, llrs) == LET RECURSIVE S(_) S(k) == IF k = 0 THEN 0 ELSE S(k - 1) + x[k] * llrs[k] IN S(g.n)
Exact(llrs) == LET out == B!ForcedLlrs(sched, g.rows, g.n, llrs, Len(g.rows) + 1)
                   cw  == Codewords
                   cst == [x \in cw |-> Cost(x, llrs)]
                   MinCost(v, b) == LET S == { cst[x] : x \in { y \in cw : y[v] = b } } IN MinOfSet(S)
               IN \A v \in 1..g.n : out[v] = MinCost(v, 1) - MinCost(v, 0)
C03Exact == calls = 1 /\ g.forest => Exact(last.llrs)
=============================================================================
