----------------------------- MODULE Trace_C01 -----------------------------
(***************************************************************************)
(* C01: every observed decode call of every factory-built implementation   *)
(* must satisfy DecodeRel!C01Rel (arithmetic independent).                 *)
(*  Decode {impl, rows, n, hard_in, limit, verdict, word, iters}           *)
(***************************************************************************)
EXTENDS TraceKit, DecodeRel

VARIABLES l
vars == <<l>>

DecodeOK(ev) ==
  /\ ev.o = "ok"
  /\ \A c \in 1..Len(ev.rows) : Len(ev.rows[c]) >= 2            \* the property's domain (checked, not assumed)
  /\ Len(ev.hard_in) = ev.n
  /\ C01Rel(ev.rows, ev.n, ev.hard_in, ev.limit, [verdict |-> ev.verdict, word |-> ev.word, iters |-> ev.iters])

OK(ev) == CASE ev.e = "Decode" -> DecodeOK(ev) [] OTHER -> FALSE

Init == l = 1
Step == /\ l <= NRec
        /\ IF OK(Rec[l]) THEN l' = l + 1 ELSE Reject(l, "C01") /\ l' = Rec[l].nx
Fin  == l = NRec + 1 /\ Done(l) /\ l' = l + 1
Next == Step \/ Fin
=============================================================================
