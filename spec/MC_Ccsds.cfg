CONSTANTS N = 4 InsertOnly = FALSE
INIT Init
NEXT Next
INVARIANTS ToggleIsGf2Sum RegularIffNoCollision
CHECK_DEADLOCK FALSE
