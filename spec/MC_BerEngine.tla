---------------------------- MODULE MC_BerEngine ----------------------------
(***************************************************************************)
(* TLC model of BerEngine: every interleaving of W workers and the         *)
(* collector for small constants; safety properties of C13 as invariants,  *)
(* termination as a liveness property under weak fairness.                 *)
(***************************************************************************)
EXTENDS BerEngine

Good  == [be |-> 0, ok |-> TRUE,  it |-> 1]
Bad1  == [be |-> 1, ok |-> FALSE, it |-> 2]     \* frame error the outer code corrects (threshold 2)
Bad3  == [be |-> 3, ok |-> TRUE,  it |-> 2]     \* false decode, beyond the outer code's threshold
GaveUp == [be |-> 0, ok |-> FALSE, it |-> 3]    \* the decoder did not converge but every systematic bit is right: NOT a frame error
OutAll == {Good, Bad1, Bad3, GaveUp}
OutQuick == {Good, Bad3, GaveUp}                \* quick tier: one error kind; the outer-code configuration uses OutBch
OutBch == {Good, Bad1, Bad3}
OutErr == {Bad3}                                \* every frame is an error: finite state space for the liveness runs
NoFaults == {}
AllFaults == {"stage_err", "panic"}
PanicOnly == {"panic"}

\* bound for the safety runs (the number of good frames before the target is unbounded)
FrameBound == stats.frames <= MaxFrames
\* `consumed' is a history variable: it does not influence behaviour
View == <<queue, senders, term, wstate, epoch, stats, published, reports, result, pc, r, failed, rq, lastRep, lines, x, pend, sending>>

CollectorPc == pc[0]
StatsExact == stats = Fold(consumed, Len(consumed))                         \* counters = sums over whole consumed frames
StopExact  == /\ ErrorsForTermination(stats) <= Target
              /\ \A k \in 1..Len(published) : ErrorsForTermination(published[k]) = Target
BchRule    == BchThreshold > 0 => stats.bferr = Cardinality({ k \in 1..Len(consumed) : consumed[k].be > BchThreshold })
NoLeak     == CollectorPc \in {"c_epoch", "c_fin", "c_done", "Done"} => \A w \in Workers : wstate[w] # "run"
FinishedLast ==
  /\ \A k \in 1..Len(reports) : reports[k] = "Finished" => k = Len(reports)
  /\ (result \in {"ok", "error"} => Len(reports) >= 1 /\ reports[Len(reports)] = "Finished")
  /\ (result = "ok" => Len(published) = Epochs /\ Len(reports) = Epochs + 1)
NoCollectorPanic == result # "panic"
\* no worker is blocked in a send while the collector has stopped receiving and waits to join it
NoBlockedSendAtJoin == ~(CollectorPc = "c_join" /\ \E w \in Workers : pc[w] = "w_send" /\ sending[w] /\ Len(queue) >= QMax)
\* the collector is never blocked in recv with nobody left who could send (the hang of D7)
NoStuck == ~(CollectorPc = "c_recv" /\ queue = <<>> /\ senders # {} /\ \A w \in Workers : wstate[w] # "run")
ErrorOnFault == result = "ok" => \A w \in Workers : wstate[w] \notin {"err", "panic"}

\* the CLI output file: one result line per Eb/N0 that was started, in order, complete once Progress has seen Finished
RECURSIVE UpTo(_)
UpTo(n) == IF n = 0 THEN <<>> ELSE Append(UpTo(n - 1), n)
StartedEpochs == Cardinality({ k \in 1..Len(reports) : reports[k] = "final" })
OneLinePerEbN0 == pc[-1] \in {"p_done", "Done"} => lines = UpTo(StartedEpochs)
LinesPrefix == \A k \in 1..Len(lines) : lines[k] = k

Termination == <>(CollectorPc = "Done")
ProgressTerminates == <>(pc[-1] = "Done")
=============================================================================
