CONSTANTS Dom <- DomH MaxLimit = 2 MaxCalls = 3 ResetOutputC = TRUE
INIT Init
NEXT Next
INVARIANTS C01Inv C10Inv
CHECK_DEADLOCK FALSE
