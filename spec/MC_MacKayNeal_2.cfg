CONSTANTS NR = 4 NC = 5 WR = 3 WC = 2 Uniform = TRUE MinGirth = 0 BtCols = 2 BtTrials = 1 GirthTrials = 0
INIT Init
NEXT Next
INVARIANTS Success Replayable
CHECK_DEADLOCK FALSE
