CONSTANTS K = 2 N = 4 Kept = 4 MaxLen = 5 WriteWholeBuffer = FALSE ResetWord = FALSE
SPECIFICATION Spec
INVARIANTS ExactOutput
