CONSTANTS Dom <- DomH MaxLimit = 1 MaxCalls = 2 ResetOutputC = TRUE
INIT Init
NEXT Next
INVARIANTS C01Inv C10Inv
CHECK_DEADLOCK FALSE
