------------------------------ MODULE MC_Util ------------------------------
(***************************************************************************)
(* Design-level check of Util.tla: for every key vector of length <= MaxL  *)
(* over 0..MaxK and every n, the outcomes of the algorithm of util.rs are   *)
(* EXACTLY the legal selections (sound: nothing smaller is left out;        *)
(* complete: every tie-break at the cut is reachable), and compare_some is  *)
(* a total order with None greatest.                                        *)
(***************************************************************************)
EXTENDS Util, TLC
CONSTANTS MaxL, MaxK, NoTieCut
VARIABLES keys, n
vars == <<keys, n>>
Init == \E L \in 0..MaxL : keys \in [1..L -> 0..MaxK] /\ n \in 0..L+1
Next == UNCHANGED vars

SelSound    == Len(keys) >= n => \A sel \in SelOutcomesF(keys, n, NoTieCut) : SelLegal(keys, n, sel)
SelComplete == Len(keys) >= n => \A sel \in SUBSET Idx(keys) : SelLegal(keys, n, sel) => sel \in SelOutcomesF(keys, n, NoTieCut)
SelNonEmpty == Len(keys) >= n => SelOutcomesF(keys, n, NoTieCut) # {}
MinExact    == MinOutcomes(keys) = { r \in Idx(keys) : MinLegal(keys, r) } /\ (Len(keys) > 0 => MinOutcomes(keys) # {})
\* selecting one item is selecting a minimum
SelOneIsMin == Len(keys) >= 1 => { {r} : r \in MinOutcomes(keys) } = SelOutcomes(keys, 1)

Opt == {None} \cup 0..MaxK
CmpOrder == /\ \A x, y \in Opt : CompareSome(x, y) = -CompareSome(y, x)
            /\ \A x, y \in Opt : CompareSome(x, y) = 0 <=> x = y
            /\ \A x, y, z \in Opt : CompareSome(x, y) <= 0 /\ CompareSome(y, z) <= 0 => CompareSome(x, z) <= 0
            /\ \A x \in Opt : CompareSome(x, None) <= 0
ASSUME CmpOrder
=============================================================================
