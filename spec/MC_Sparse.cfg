CONSTANTS NR = 2 NC = 3 MaxBulk = 2 MaxOps = 4
INIT InitMC
NEXT NextMC
INVARIANTS Mirror NoDups Refines WeightsOK NoopInv
CHECK_DEADLOCK FALSE
