CONSTANTS NR = 4 NC = 4 WR = 3 WC = 2 Uniform = FALSE MinGirth = 6 BtCols = 1 BtTrials = 1 GirthTrials = 2
INIT Init
NEXT Next
INVARIANTS Success Replayable
CHECK_DEADLOCK FALSE
