CONSTANTS MaxL = 6 MaxK = 3 NoTieCut = FALSE
INIT Init
NEXT Next
INVARIANTS SelSound SelComplete SelNonEmpty MinExact SelOneIsMin
CHECK_DEADLOCK FALSE
