-------------------------------- MODULE Ccsds --------------------------------
(***************************************************************************)
(* CCSDS 131.0-B AR4JA codes (section 7.4) and the C2 (8176,7156) code     *)
(* (section 7.3), C07.  Constants typed from the Blue Book.                *)
(*                                                                         *)
(* AR4JA: H is a 3 x (5 | 7 | 11) array of M x M cells, each a GF(2) sum   *)
(* of 0, I_M and permutation matrices PI_k.  W[rate][a][b] = number of     *)
(* summands of cell (a,b) = number of ones in every row (and column) of    *)
(* the cell when no two summands collide.  PI_k maps the four M/4-row      *)
(* bands to M/4-column sub-blocks as cyclic shifts, so every M/4 x M/4     *)
(* sub-block of H is a sum of circulants.                                  *)
(***************************************************************************)
EXTENDS Integers, Sequences, FiniteSets

MTable == [ R1_2_K1024 |-> 512,  R1_2_K4096 |-> 2048, R1_2_K16384 |-> 8192,
            R2_3_K1024 |-> 256,  R2_3_K4096 |-> 1024, R2_3_K16384 |-> 4096,
            R4_5_K1024 |-> 128,  R4_5_K4096 |-> 512,  R4_5_K16384 |-> 2048 ]
KTable == [ R1_2_K1024 |-> 1024, R1_2_K4096 |-> 4096, R1_2_K16384 |-> 16384,
            R2_3_K1024 |-> 1024, R2_3_K4096 |-> 4096, R2_3_K16384 |-> 16384,
            R4_5_K1024 |-> 1024, R4_5_K4096 |-> 4096, R4_5_K16384 |-> 16384 ]
RateOf == [ R1_2_K1024 |-> "1/2", R1_2_K4096 |-> "1/2", R1_2_K16384 |-> "1/2",
            R2_3_K1024 |-> "2/3", R2_3_K4096 |-> "2/3", R2_3_K16384 |-> "2/3",
            R4_5_K1024 |-> "4/5", R4_5_K4096 |-> "4/5", R4_5_K16384 |-> "4/5" ]
Ar4jaNames == DOMAIN MTable

\* protograph: summands per cell, block rows 1..3
H12 == << <<0, 0, 1, 0, 2>>, <<1, 1, 0, 1, 3>>, <<1, 2, 0, 2, 1>> >>
X23 == << <<0, 0>>, <<3, 1>>, <<1, 3>> >>                            \* the two extra block columns of rate 2/3
X45 == << <<0, 0, 0, 0>>, <<3, 1, 3, 1>>, <<1, 3, 1, 3>> >>          \* the four further block columns of rate 4/5
W(rate) == [a \in 1..3 |-> CASE rate = "1/2" -> H12[a]
                              [] rate = "2/3" -> X23[a] \o H12[a]
                              [] rate = "4/5" -> X45[a] \o X23[a] \o H12[a]]
NBlockCols(rate) == Len(W(rate)[1])
BlockColDegree(rate, b) == W(rate)[1][b] + W(rate)[2][b] + W(rate)[3][b]
\* information size: the last block column is punctured, 3 block rows of checks
ASSUME \A c \in Ar4jaNames : (NBlockCols(RateOf[c]) - 3) * MTable[c] = KTable[c]
ASSUME \A r \in {"1/2", "2/3", "4/5"} : BlockColDegree(r, NBlockCols(r)) = 6                 \* the punctured block has degree 6
ASSUME \A r \in {"1/2", "2/3", "4/5"} :
         LET n == NBlockCols(r) IN << BlockColDegree(r, n-4), BlockColDegree(r, n-3), BlockColDegree(r, n-2), BlockColDegree(r, n-1), BlockColDegree(r, n) >> = <<2, 3, 1, 3, 6>>
ASSUME \A b \in 1..2 : BlockColDegree("2/3", b) = 4
ASSUME \A b \in 1..6 : BlockColDegree("4/5", b) = 4

\* ---- clauses on an observed matrix given as rows[i+1] = sequence of column indices (0-based) of row i -------------
RowCell(rows, i, b, S) == { c \in { rows[i + 1][t] : t \in 1..Len(rows[i + 1]) } : c \div S = b }     \* ones of row i in block column b (size S)
CellWeightsOK(rows, rate, M) ==
  \A i \in 0..(3 * M - 1) : \A b \in 0..(NBlockCols(rate) - 1) :
     Cardinality(RowCell(rows, i, b, M)) = W(rate)[(i \div M) + 1][b + 1]
\* cyclic shift by one inside a sub-block of size S
ShiftIn(c, S) == ((c \div S) * S) + (((c % S) + 1) % S)
RowSet(rows, i) == { rows[i + 1][t] : t \in 1..Len(rows[i + 1]) }
\* within a band of S consecutive rows, each row is the previous one shifted by one in every S-wide sub-block
CirculantOK(rows, nrows, S) ==
  \A i \in 0..(nrows - 2) : ((i % S) # (S - 1)) => RowSet(rows, i + 1) = { ShiftIn(c, S) : c \in RowSet(rows, i) }
NoDupRows(rows) == \A i \in 1..Len(rows) : \A a, b \in 1..Len(rows[i]) : rows[i][a] = rows[i][b] => a = b

\* ---- C2: a 2 x 16 array of 511 x 511 circulants of weight 2 -----------------------------------------------------
C2OK(rows, colw) ==
  /\ Len(rows) = 1022 /\ Len(colw) = 8176
  /\ \A i \in 0..1021 : \A b \in 0..15 : Cardinality(RowCell(rows, i, b, 511)) = 2          \* weight-2 circulants: row weight 32
  /\ \A c \in 1..8176 : colw[c] = 4                                                          \* column weight 4
  /\ CirculantOK(rows, 1022, 511)
=============================================================================
