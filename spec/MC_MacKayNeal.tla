---------------------------- MODULE MC_MacKayNeal ----------------------------
(* Every behaviour of the MacKay-Neal machine for small configurations: a finished run satisfies ResultOK. *)
EXTENDS MacKayNeal, TLC
CONSTANTS NR, NC, WR, WC, Uniform, MinGirth, BtCols, BtTrials, GirthTrials
VARIABLES cols, bt, gt, status
vars == <<cols, bt, gt, status>>
MG == IF MinGirth = 0 THEN -1 ELSE MinGirth

Init == cols = <<>> /\ bt = BtTrials /\ gt = GirthTrials /\ status = "run"

Candidates == { S \in SUBSET Avail(cols, NR, WR) :
                  /\ Cardinality(S) = WC
                  /\ (Uniform => \A a \in S : \A b \in Avail(cols, NR, WR) \ S : RowWeight(cols, a) <= RowWeight(cols, b)) }
GirthBad(S) == MG # -1 /\ LET g == LocalGirth(AdjOf(Append(cols, S), NR, NC), NR + Len(cols)) IN g # -1 /\ g < MG

TryInsert == /\ status = "run" /\ Len(cols) < NC /\ Candidates # {}
             /\ \E S \in Candidates :
                  IF GirthBad(S)
                  THEN IF gt = 0 THEN status' = "err" /\ UNCHANGED <<cols, bt, gt>>            \* NoMoreTrials
                       ELSE gt' = gt - 1 /\ UNCHANGED <<cols, bt, status>>                       \* retry_girth
                  ELSE cols' = Append(cols, S) /\ UNCHANGED <<bt, gt, status>>
NoAvail ==   /\ status = "run" /\ Len(cols) < NC /\ Candidates = {}
             /\ IF bt = 0 THEN status' = "err" /\ UNCHANGED <<cols, bt, gt>>                    \* NoMoreBacktrack
                ELSE LET b == IF Len(cols) < BtCols THEN Len(cols) ELSE BtCols IN
                     cols' = SubSeq(cols, 1, Len(cols) - b) /\ bt' = bt - 1 /\ UNCHANGED <<gt, status>>
Finish ==    status = "run" /\ Len(cols) = NC /\ status' = "ok" /\ UNCHANGED <<cols, bt, gt>>
Next == TryInsert \/ NoAvail \/ Finish

Success == status = "ok" => ResultOK(cols, NR, NC, WR, WC, Uniform, MG)
\* every column of the matrix under construction was legal when it was inserted (what Trace_C16 replays)
Replayable == \A j \in 1..Len(cols) : ColumnLegal(SubSeq(cols, 1, j - 1), cols[j], NR, NC, WR, WC, Uniform, MG)
=============================================================================
