----------------------------- MODULE Trace_C12 -----------------------------
(***************************************************************************)
(* C12: what the real BER chain hands to the decoder, judged by Chain.tla. *)
(*  cfg = {ncw, k, rows, bps, usep, pat, useil, C, back}                   *)
(*  Sizes {ncw, k, pat, n, ncw_rep, k_rep, rate_u}                         *)
(*  Frame {cfg, len, zero_pos, hard}   one frame as seen by the decoder    *)
(*  Run   {cfg, target, frames, ferr, berr, fdec, n, ...}  a run in which  *)
(*        the injected decoder answers with the hard decision of what it   *)
(*        received for its first frames and afterwards flips exactly one   *)
(*        systematic bit per frame (verdict Ok): the reported bit errors   *)
(*        must then be exactly the number of flipped bits                  *)
(*  Noise {cfg, ebn0_e3, n, sig2_e4, N, ma_*, m2_*, lag_*, mean_e}         *)
(*        moments (x 1e4) of the LLRs the engine produced (_e) and of a     *)
(*        reference chain (_r) driven with sigma^2 = sig2_e4 / 1e4          *)
(***************************************************************************)
EXTENDS TraceKit, Chain, DecodeRel

VARIABLES l
vars == <<l>>

Pat(p) == [k \in 1..Len(p) |-> p[k] = 1]
Abs(x) == IF x < 0 THEN -x ELSE x
Within(a, b, pct) == Abs(a - b) * 100 <= pct * Abs(b)

SizesRel(ncw, k, p, n, ncw_rep, k_rep, rate_u) ==
  /\ ncw_rep = ncw /\ k_rep = k
  /\ n * Len(p) = ncw * Trues(Pat(p))                              \* frame size counted AFTER puncturing
  /\ Abs(rate_u * n - k * 1000000) <= n                             \* rate = k / n   (rate_u = rate * 1e6, rounded)

SizesOK(ev) == ev.o = "ok" /\ SizesRel(ev.ncw, ev.k, ev.pat, ev.n, ev.ncw_rep, ev.k_rep, ev.rate_u)

\* punctured positions of the codeword (1-based), from the pipeline on tags
PuncturedPos(c) == { i \in 1..c.ncw : Delivered(c.ncw, Pat(c.pat), c.usep)[i] = ZERO }
\* the decoder must be handed, in codeword bit order, the signs of a codeword: some filling of the punctured
\* positions makes every parity check hold
SomeCodeword(c, hard) ==
  LET pp == PuncturedPos(c) IN
  \E fill \in [pp -> {0, 1}] :
     SynZero(c.rows, [i \in 1..c.ncw |-> IF i \in pp THEN fill[i] ELSE hard[i]])

FrameOK(ev) ==
  /\ ev.o = "ok"
  /\ ev.len = ev.cfg.ncw /\ Len(ev.hard) = ev.cfg.ncw                 \* codeword length
  /\ { z + 1 : z \in SeqToSet(ev.zero_pos) } = PuncturedPos(ev.cfg)    \* exactly-zero LLRs exactly at the punctured positions
  /\ SomeCodeword(ev.cfg, ev.hard)

RunOK(ev) ==
  /\ ev.o = "ok" /\ ev.stats_len = 1
  /\ ev.ferr = ev.target                                              \* stopped exactly at the requested number of frame errors
  /\ ev.frames >= ev.ferr
  \* one flipped bit per error frame and NO other bit error, i.e. the systematic prefix of every frame equalled the
  \* (hidden) message: judged only when no systematic position is punctured (the recording decoder cannot know a
  \* punctured message bit; its hard decision there is 1)
  /\ (PuncturedPos(ev.cfg) \cap (1..ev.cfg.k) = {} => ev.berr = ev.ferr /\ ev.fdec = ev.ferr)
  /\ SizesRel(ev.cfg.ncw, ev.cfg.k, ev.cfg.pat, ev.n, ev.ncw_rep, ev.k_rep, ev.rate_u)

\* sigma^2 = 1 / (2 * rate * bps * Eb/N0), rate = k/n after puncturing; in 1e-4 units from Eb/N0 in 1e-3 units
Sig2E4(k, n, bps, ebn0_e3) == (n * 10000000) \div (2 * k * bps * ebn0_e3)
NoiseOK(ev) ==
  /\ ev.o = "ok" /\ ev.N >= 100000
  /\ ev.n * Len(ev.cfg.pat) = ev.cfg.ncw * Trues(Pat(ev.cfg.pat))
  /\ Abs(ev.sig2_e4 - Sig2E4(ev.cfg.k, ev.n, ev.cfg.bps, ev.ebn0_e3)) <= 3 + ev.sig2_e4 \div 500
  /\ Within(ev.ma_e, ev.ma_r, 3) /\ Within(ev.m2_e, ev.m2_r, 4)        \* 10 standard errors at N >= 1e5
  /\ (ev.uselag => Within(ev.lag_e, ev.lag_r, 4))                      \* independence between neighbouring LLRs / I and Q
  /\ Abs(ev.mean_e - ev.mean_r) * 100 <= 3 * ev.ma_r                   \* same mean as the reference chain (zero unless the code has a constant bit)
  \* EVERY transmitted position of the frame carries noise (a continuous value: practically all frames differ there), every
  \* punctured position is exactly zero in every frame
  /\ ev.dup_frames = 0                                                  \* no frame is delivered twice (by one worker or by two)
  /\ Len(ev.pos_distinct) = ev.cfg.ncw /\ ev.frames >= 50
  /\ LET P == Pat(ev.cfg.pat)  b == ev.cfg.ncw \div Len(P) IN
     \A v \in 1..ev.cfg.ncw : IF P[((v - 1) \div b) + 1] THEN ev.pos_distinct[v] >= 40 ELSE ev.pos_distinct[v] = 1

EvOK(ev) == CASE ev.e = "Sizes" -> SizesOK(ev) [] ev.e = "Frame" -> FrameOK(ev) [] ev.e = "Run" -> RunOK(ev)
              [] ev.e = "Noise" -> NoiseOK(ev) [] OTHER -> FALSE

Init == l = 1
Step == /\ l <= NRec
        /\ IF EvOK(Rec[l]) THEN l' = l + 1 ELSE Reject(l, "C12") /\ l' = Rec[l].nx
Fin  == l = NRec + 1 /\ Done(l) /\ l' = l + 1
Next == Step \/ Fin
=============================================================================
