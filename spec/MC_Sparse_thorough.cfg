CONSTANTS NR = 2 NC = 3 MaxBulk = 3 MaxOps = 6
INIT InitMC
NEXT NextMC
INVARIANTS Mirror NoDups Refines WeightsOK NoopInv
CHECK_DEADLOCK FALSE
