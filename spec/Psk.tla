-------------------------------- MODULE Psk --------------------------------
(***************************************************************************)
(* src/simulation/modulation.rs (C14): BPSK and the DVB-S2 8PSK mapping.   *)
(* A constellation point is its index k on the unit circle, angle k*pi/4.  *)
(* Label(k) = <<b0, b1, b2>> typed from EN 302 307-1 Figure 10 (counter-   *)
(* clockwise from angle 0: 001 000 100 110 010 011 111 101).               *)
(* BPSK: bit 0 -> -1, bit 1 -> +1.                                         *)
(* The LLR of bit b at received r with per-dimension noise sigma is        *)
(*   LLR_b(r) = LSE{ <r,s>/sigma^2 : s in S(b,0) } - LSE{ ... : S(b,1) }   *)
(* (all points have unit energy, so the |s|^2 terms cancel); this is the   *)
(* reference the harness oracle evaluates with THIS table; TLC cannot      *)
(* evaluate exp/log and judges the reported distance instead.              *)
(***************************************************************************)
EXTENDS Integers, Sequences, FiniteSets

Label == << <<0,0,1>>, <<0,0,0>>, <<1,0,0>>, <<1,1,0>>, <<0,1,0>>, <<0,1,1>>, <<1,1,1>>, <<1,0,1>> >>   \* Label[k+1], k = 0..7
LabelOf(k) == Label[k + 1]
PointOf(bits) == CHOOSE k \in 0..7 : LabelOf(k) = bits
Hamming(a, b) == Cardinality({ t \in 1..3 : a[t] # b[t] })

Bijective == \A a \in [1..3 -> {0,1}] : \E k \in 0..7 : LabelOf(k) = <<a[1], a[2], a[3]>>
Gray      == \A k \in 0..7 : Hamming(LabelOf(k), LabelOf((k + 1) % 8)) = 1     \* neighbouring points differ in one bit
S(b, v)   == { k \in 0..7 : LabelOf(k)[b] = v }                                \* bit partitions
Balanced  == \A b \in 1..3, v \in {0, 1} : Cardinality(S(b, v)) = 4

BpskPoint(bit) == IF bit = 0 THEN -1 ELSE 1
\* hard decision: LLR > 0 means 0, non-positive means 1
HardBit(s) == IF s > 0 THEN 0 ELSE 1

\* bits of a sequence grouped in triples -> point indices
Points8(bits) == [t \in 1..(Len(bits) \div 3) |-> PointOf(<<bits[3*t - 2], bits[3*t - 1], bits[3*t]>>)]
ASSUME Bijective /\ Gray /\ Balanced
=============================================================================
