CONSTANTS NR = 3 NC = 4 TrackBranch = TRUE Bounds <- BoundsAll
INIT Init
NEXT Next
INVARIANTS DistancesExact LocalGirthExact GirthExact
CHECK_DEADLOCK FALSE
