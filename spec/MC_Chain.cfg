CONSTANTS MaxC = 5 MaxR = 5 MaxP = 4 MaxB = 3 WrongInverseOrder = FALSE
INIT Init
NEXT Next
INVARIANTS IlInv PuInv ChainInv
CHECK_DEADLOCK FALSE
