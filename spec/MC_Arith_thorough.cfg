CONSTANTS Lat <- LatT MaxDeg = 4
INIT Init
NEXT Next
INVARIANTS CheckThm VarThm LayerThm
CHECK_DEADLOCK FALSE
