---------------------------- MODULE EncodeStream ----------------------------
(***************************************************************************)
(* src/cli/encode.rs (C20): the `encode' subcommand as the loop it is.     *)
(* The input file is a byte stream cut into information words of K bytes;  *)
(* every COMPLETE word is encoded (N bits), punctured (Kept <= N bits are  *)
(* left) and written; a trailing partial word ends the loop (read_exact    *)
(* reports UnexpectedEof) and writes nothing.  The codeword passes through *)
(* a buffer of N bytes that is allocated once, before the loop.            *)
(*                                                                         *)
(* Abstraction: bit t of the punctured codeword of word w is the tag       *)
(* <<w, t>>; the buffer initially holds the tag <<{}, 0>> (zero bytes).          *)
(*   WriteWholeBuffer = TRUE is defect D8 (DESIGN 12): write_all(&buf)     *)
(*   instead of write_all(&buf[..len]) - with puncturing every codeword is *)
(*   followed by N - Kept stale bytes.                                     *)
(*   ResetWord = FALSE is seeded change C20-m6: the information word is    *)
(*   allocated once and only its ones are written, so a word inherits the  *)
(*   ones of its predecessors (the word then encoded is the OR).           *)
(***************************************************************************)
EXTENDS Naturals, Sequences, FiniteSets
CONSTANTS K, N, Kept, MaxLen, WriteWholeBuffer, ResetWord
ASSUME K >= 1 /\ N >= K /\ Kept >= 1 /\ Kept <= N

VARIABLES len,      \* length of the input file in bytes
          pos,      \* bytes consumed so far
          buf,      \* the codeword buffer (N entries)
          acc,      \* which input words have contributed to the information word being encoded
          out,      \* the output file
          pc
vars == <<len, pos, buf, acc, out, pc>>

Code(ws) == [t \in 1..Kept |-> <<ws, t>>]                    \* punctured codeword of the word built from the set ws of input words
Init == /\ len \in 0..MaxLen /\ pos = 0 /\ buf = [t \in 1..N |-> <<{}, 0>>] /\ acc = {} /\ out = <<>> /\ pc = "read"

ReadWord ==                                                   \* read_exact succeeds: one complete word
  /\ pc = "read" /\ len - pos >= K
  /\ pos' = pos + K
  /\ acc' = (IF ResetWord THEN {} ELSE acc) \cup {(pos \div K) + 1}
  /\ pc' = "encode" /\ UNCHANGED <<len, buf, out>>
Eof ==                                                        \* UnexpectedEof (also for a trailing partial word): leave the loop
  /\ pc = "read" /\ len - pos < K
  /\ pc' = "done" /\ UNCHANGED <<len, pos, buf, acc, out>>
EncodeAndWrite ==
  /\ pc = "encode"
  /\ LET cw == Code(acc)
         b2 == [t \in 1..N |-> IF t <= Kept THEN cw[t] ELSE buf[t]] IN
     /\ buf' = b2
     /\ out' = out \o (IF WriteWholeBuffer THEN b2 ELSE SubSeq(b2, 1, Kept))
  /\ pc' = "read" /\ UNCHANGED <<len, pos, acc>>
Next == ReadWord \/ Eof \/ EncodeAndWrite \/ (pc = "done" /\ UNCHANGED vars)
Spec == Init /\ [][Next]_vars /\ WF_vars(Next)

\* for each complete input word exactly the (punctured) codeword, and nothing more
RECURSIVE Expected(_)
Expected(w) == IF w = 0 THEN <<>> ELSE Expected(w - 1) \o Code({w})
ExactOutput == pc = "done" => out = Expected(len \div K)
\* ... and at every moment the output is that of the words consumed so far (a prefix of the final file)
PrefixOutput == pc = "read" => out = Expected(pos \div K)
Terminates == <>(pc = "done")
=============================================================================
