----------------------------- MODULE Trace_C05 -----------------------------
(***************************************************************************)
(* C05: direct calls of the variable rule, the quantiser and the layered   *)
(* rule of the 24 arithmetics.  The statement fixes exact values for the   *)
(* 8-bit types, so equality with the integer model of Arith.tla IS the     *)
(* property-level predicate; for the float types sums are compared under a *)
(* relative floating-point tolerance (centibels, see Arith.tla).           *)
(***************************************************************************)
EXTENDS TraceKit, Arith

VARIABLES l
vars == <<l>>

Quant8OK(ev) == ev.o = "ok" /\ QuantOK(ev.cls, ev.fl, ev.cmp, ev.got)

Var8OK(ev) ==
  /\ ev.o = "ok"
  /\ OnePerNeighbour(Ids(ev.in), Ids(ev.out))
  /\ LET m == Var8(ev.llr, Vals(ev.in), ev.jones, ev.deg1) inIds == Ids(ev.in) IN
     /\ ev.ret = m.ret /\ ev.ret \in -127..127
     /\ \A k \in 1..Len(ev.out) : ev.out[k][2] = m.out[PosOf(inIds, ev.out[k][1])] /\ ev.out[k][2] \in -127..127

\* layered = flooding rule of the same arithmetic on the extrinsic values, then add the new message
Layer8OK(ev) ==
  /\ ev.o = "ok"
  /\ Ids(ev.news) = Ids(ev.olds)
  /\ LET dests == Ids(ev.olds)
         ext == [i \in 1..Len(dests) |-> ev.vars[dests[i] + 1] - ev.olds[i][2]] IN
     /\ \A i \in 1..Len(dests) : ev.ext_msg[i][2] = Clip(ext[i])                       \* extrinsic, saturated to 8 bits
     /\ OnePerNeighbour(dests, Ids(ev.flood))
     /\ \A i \in 1..Len(dests) :
          /\ ev.news[i][2] = ev.flood[PosOf(Ids(ev.flood), dests[i])][2]               \* = flooding check rule on extrinsics
          /\ ev.news[i][2] \in -127..127
          /\ ev.vars_after[dests[i] + 1] = ext[i] + ev.news[i][2]                       \* followed by adding the new message
     /\ \A v \in 1..Len(ev.vars) : (~\E i \in 1..Len(dests) : dests[i] = v - 1) => ev.vars_after[v] = ev.vars[v]

\* floats: relative tolerance 100*log10(4*(d+2)*eps) above the scale of the operands
TolSum(f32, d) == (IF f32 THEN -722 ELSE -1595) + 60 + Log10c(d + 2)
VarFOK(ev) ==
  /\ ev.o = "ok" /\ OnePerNeighbour(Ids(ev.in), [k \in 1..Len(ev.out) |-> ev.out[k].dst])
  /\ ev.ret_err_cb <= ev.scale_cb + TolSum(ev.f32, ev.d)
  /\ \A k \in 1..Len(ev.out) : ev.out[k].err_cb <= ev.scale_cb + TolSum(ev.f32, ev.d)
LayerFOK(ev) ==
  /\ ev.o = "ok" /\ ev.dests_same /\ ev.untouched_ok
  /\ \A k \in 1..Len(ev.rows) :
       /\ ev.rows[k].new_err_cb <= ev.scale_cb + TolSum(ev.f32, ev.d) + 44 * ev.rows[k].mag_c    \* same rule, reassociation only
       /\ ev.rows[k].var_err_cb <= ev.scale_cb + TolSum(ev.f32, ev.d)

\* one quantiser for all sixteen 8-bit variants, whatever direction exact ties take (x and -x are both asked; no symmetry is demanded
\* at ties: "round half up" is a rounding too)
QuantFamOK(ev) ==
  /\ ev.o = "ok" /\ Len(ev.got) = 16 /\ Len(ev.neg) = 16
  /\ \A k \in 1..16 : ev.got[k] = ev.got[1] /\ ev.got[k] \in -127..127 /\ ev.neg[k] = ev.neg[1] /\ ev.neg[k] \in -127..127

OK(ev) == CASE ev.e = "QuantFam" -> QuantFamOK(ev) [] ev.e = "Quant8" -> Quant8OK(ev) [] ev.e = "Var8" -> Var8OK(ev) [] ev.e = "Layer8" -> Layer8OK(ev)
            [] ev.e = "VarF" -> VarFOK(ev) [] ev.e = "LayerF" -> LayerFOK(ev) [] OTHER -> FALSE

Init == l = 1
Step == /\ l <= NRec
        /\ IF OK(Rec[l]) THEN l' = l + 1 ELSE Reject(l, "C05") /\ l' = Rec[l].nx
Fin  == l = NRec + 1 /\ Done(l) /\ l' = l + 1
Next == Step \/ Fin
=============================================================================
