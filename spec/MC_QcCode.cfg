CONSTANTS LL = 3 QQ = 2
INIT Init
NEXT Next
INVARIANTS Shifted Staircase Criterion
CHECK_DEADLOCK FALSE
