CONSTANTS MaxC = 6 MaxR = 6 MaxP = 5 MaxB = 3 WrongInverseOrder = FALSE
INIT Init
NEXT Next
INVARIANTS IlInv PuInv ChainInv
CHECK_DEADLOCK FALSE
