CONSTANTS K = 2 N = 4 Kept = 3 MaxLen = 5 WriteWholeBuffer = TRUE ResetWord = TRUE
SPECIFICATION Spec
INVARIANTS ExactOutput
