CONSTANTS K = 2 N = 4 Kept = 3 MaxLen = 9 WriteWholeBuffer = FALSE ResetWord = TRUE
SPECIFICATION Spec
INVARIANTS ExactOutput PrefixOutput
PROPERTY Terminates
