------------------------------- MODULE Arith -------------------------------
(***************************************************************************)
(* src/decoder/arithmetic.rs: the 24 built-in arithmetics.                 *)
(*                                                                         *)
(* PART 1  exact integer models of the sixteen 8-bit rule sets (quantiser, *)
(*         correction table, clip, Jones clip, partial hard limit,         *)
(*         degree-one clip, min*-approx and A-Min* check rules, variable   *)
(*         rule, layered rule).                                            *)
(* PART 2  the property-level clauses of C04 (one message per neighbour,   *)
(*         sign = parity of the other signs, magnitude <= smallest other   *)
(*         magnitude, agreement with the real-valued rule within           *)
(*         accumulated table rounding) and C05 (exact saturating sums).    *)
(* PART 3  tolerance tables for the floating-point rules, in centibels     *)
(*         (cB = 100*log10), so that TLC evaluates every inequality in     *)
(*         integer arithmetic.                                             *)
(***************************************************************************)
EXTENDS Integers, Sequences, FiniteSets

Abs(x)     == IF x < 0 THEN -x ELSE x
Min2(a, b) == IF a <= b THEN a ELSE b
Max2(a, b) == IF a >= b THEN a ELSE b
SetMin(S)  == CHOOSE x \in S : \A y \in S : x <= y
F(s) == s \o <<>>                       \* materialise (see DecodeRel.tla)
SeqSet(s) == { s[k] : k \in 1..Len(s) }

-----------------------------------------------------------------------------
(* PART 1 *)
\* round(8*ln(1+exp(-t/8))), t = 0,1,..., until it rounds to 0 (computed independently of /repo)
T8 == <<6, 5, 5, 4, 4, 3, 3, 3, 3, 2, 2, 2, 2, 1, 1, 1, 1, 1, 1, 1, 1, 1>>
Lookup(x) == IF x < Len(T8) THEN T8[x + 1] ELSE 0
Clip(x) == IF x >= 127 THEN 127 ELSE IF x <= -127 THEN -127 ELSE x
SatAdd8(x, y) == Min2(x + y, 127)                                   \* i8::saturating_add of non-negatives
PHL(on, x) == IF ~on THEN x ELSE IF x <= -100 THEN -127 ELSE IF x >= 100 THEN 127 ELSE x
Deg1(on, x, degOne) == IF on /\ degOne THEN (IF x <= -116 THEN -116 ELSE IF x >= 116 THEN 116 ELSE x) ELSE x

\* quantiser: x8 = 8*llr described exactly by (floor, comparison of the fractional part with 1/2)
\* ties: the statement says "round" without a tie rule; both neighbours are accepted
QuantOK(cls, fl, cmp, got) ==
  CASE cls = "nan"  -> got \in -127..127
    [] cls = "pinf" -> got = 127
    [] cls = "ninf" -> got = -127
    [] cls = "fin"  -> \/ cmp \in {"lt", "eq"} /\ got = Clip(fl)
                       \/ cmp \in {"gt", "eq"} /\ got = Clip(fl + 1)

\* min*-approx fold over a sequence of non-negative magnitudes, in order
RECURSIVE MsFold(_, _, _)
MsFold(m, k, acc) == IF k > Len(m) THEN acc
                     ELSE MsFold(m, k + 1, Max2(0, Min2(m[k], acc) - Lookup(Abs(m[k] - acc))))
MsApprox(m) == MsFold(m, 2, m[1])
\* A-Min* fold (two lookups)
AmStep(x, y) == Max2(0, Min2(x, y) - Lookup(Abs(x - y)) + Lookup(SatAdd8(x, y)))
RECURSIVE AmFold(_, _, _)
AmFold(m, k, acc) == IF k > Len(m) THEN acc ELSE AmFold(m, k + 1, AmStep(m[k], acc))

Others(s, i) == F([k \in 1..Len(s) - 1 |-> IF k < i THEN s[k] ELSE s[k + 1]])
NegParity(s) == Cardinality({ k \in 1..Len(s) : s[k] < 0 }) % 2
Mags(s) == F([k \in 1..Len(s) |-> Abs(s[k])])
Signed(neg, m) == IF neg THEN -m ELSE m

\* send_check_messages of the min*-approx 8-bit types: ins = sequence of values; result = sequence of messages
\* (position i = message to the source of ins[i])
MinstarCheck8(ins, phl) ==
  F([i \in 1..Len(ins) |->
      LET o == Others(ins, i) IN PHL(phl, Signed(NegParity(o) = 1, MsApprox(Mags(o))))])

\* A-Min*: argmin = FIRST minimum of |value|
ArgMin(ins) == SetMin({ i \in 1..Len(ins) : \A j \in 1..Len(ins) : Abs(ins[i]) <= Abs(ins[j]) })
AminstarCheck8(ins, phl) ==
  LET am    == ArgMin(ins)
      o     == Mags(Others(ins, am))
      delta == AmFold(o, 2, o[1])
      vmin  == Abs(ins[am])
      d2    == AmStep(delta, vmin)
      sAll  == NegParity(ins) = 1
  IN F([i \in 1..Len(ins) |->
        LET mag == PHL(phl, IF i = am THEN delta ELSE d2) IN
        Signed(sAll # (ins[i] < 0), mag)])

Check8(kind, ins, phl) == IF kind = "minstar" THEN MinstarCheck8(ins, phl) ELSE AminstarCheck8(ins, phl)

RECURSIVE SumSeq(_, _)
SumSeq(s, k) == IF k = 0 THEN 0 ELSE SumSeq(s, k - 1) + s[k]
\* send_var_messages of every 8-bit type: [ret, out]
Var8(llr, msgs, jones, deg1) ==
  LET t0 == Deg1(deg1, llr, Len(msgs) = 1) + SumSeq(msgs, Len(msgs))
      t  == IF jones THEN Clip(t0) ELSE t0
  IN [ret |-> Clip(t), out |-> F([i \in 1..Len(msgs) |-> Clip(t - msgs[i])])]

\* update_check_messages_and_vars of every 8-bit type.  olds[i] = old message to variable dests[i];
\* vars = function variable index (0-based) -> i16 LLR.  Returns [new, vars]
Layer8(kind, phl, dests, olds, vars) ==
  LET ext == F([i \in 1..Len(dests) |-> vars[dests[i] + 1] - olds[i]])
      inm == F([i \in 1..Len(dests) |-> Clip(ext[i])])               \* the extrinsic as an 8-bit message
      new == Check8(kind, inm, phl)
  IN [new |-> new,
      vars |-> F([v \in 1..Len(vars) |->
                   IF \E i \in 1..Len(dests) : dests[i] = v - 1
                   THEN LET i == CHOOSE u \in 1..Len(dests) : dests[u] = v - 1 IN ext[i] + new[i]
                   ELSE vars[v]])]

-----------------------------------------------------------------------------
(* PART 2: property-level clauses on observed calls.  in/out are sequences of <<id, value>>.  *)
Ids(ps)  == F([k \in 1..Len(ps) |-> ps[k][1]])
Vals(ps) == F([k \in 1..Len(ps) |-> ps[k][2]])
NoDup(s) == \A a, b \in 1..Len(s) : s[a] = s[b] => a = b
\* exactly one message per neighbour
OnePerNeighbour(inIds, outIds) == Len(inIds) = Len(outIds) /\ NoDup(outIds) /\ SeqSet(inIds) = SeqSet(outIds)
PosOf(ids, x) == CHOOSE k \in 1..Len(ids) : ids[k] = x

\* 8-bit check rule, judged against the property (not against the exact model):
\*   refs : rows of references (milli-units, input order), one row per admissible least-reliable input
\*   B    : accumulated table rounding, in units
BMinstar(d)  == (d - 2) * 500 + 1            \* milli-units: 1/2 unit per fold step (d-2 steps), 1-Lipschitz fold
BAminstar(d) == (d - 1) * 1000 + 1           \* two lookups per step, d-1 steps towards non-least-reliable inputs
TrackOK(got, refm, B, phl) ==                \* got = PHL(x) for some integer x within B of the reference
  \E x \in ((refm - B) \div 1000 - 1)..((refm + B) \div 1000 + 1) :
     /\ x * 1000 >= refm - B /\ x * 1000 <= refm + B
     /\ got = PHL(phl, Clip(x))
Check8PropOK(kind, phl, ins, outs, refs) ==
  LET inIds == Ids(ins) inV == Vals(ins) d == Len(ins)
      B == IF kind = "minstar" THEN BMinstar(d) ELSE BAminstar(d) IN
  /\ OnePerNeighbour(inIds, Ids(outs))
  /\ \A k \in 1..Len(outs) :
       LET i == PosOf(inIds, outs[k][1]) o == Others(inV, i) got == outs[k][2] IN
       /\ got \in -127..127                                                   \* never -128
       /\ (got # 0 => (got < 0) = (NegParity(o) = 1))                          \* sign of the product of the others
       /\ \/ Abs(got) <= SetMin(SeqSet(Mags(o)))                               \* never above the smallest other magnitude
          \/ phl /\ Abs(got) = 127 /\ SetMin(SeqSet(Mags(o))) >= 100 - B \div 1000 - 1
  /\ \E r \in 1..Len(refs) :
       \A k \in 1..Len(outs) : TrackOK(outs[k][2], refs[r][PosOf(inIds, outs[k][1])], B, phl)

-----------------------------------------------------------------------------
(* PART 3: floating point.  Errors arrive as centibels err_cb = ceil(100*log10|got - ref|)        *)
(* (-99999 for an exact match); tolerances are  Base(type) + 100*log10(d) + 44*ceil|ref| :       *)
(* K*d*eps*(1+e^|y|), the error model of phi(phi-sum) and 2*atanh(prod tanh) (DESIGN.md A.4).     *)
Log10c(d) == IF d <= 1 THEN 0 ELSE IF d <= 3 THEN 48 ELSE IF d <= 10 THEN 100 ELSE IF d <= 31 THEN 150 ELSE 231
\* 100*log10(64*eps): eps = 2^-53 (f64: -1415), 2^-24 (f32: -542); +30 for (1+e^c) <= 2e^c
TolSumProduct(f32, d, refc) == (IF f32 THEN -542 ELSE -1415) + 30 + Log10c(d) + 44 * refc
\* min*-based rules have no exponential error growth: K*d*eps*(1+|y|)
TolMinstar(f32, d, refc) == (IF f32 THEN -542 ELSE -1415) + Log10c(d) + 100 + (IF refc > 100 THEN 200 ELSE IF refc > 10 THEN 100 ELSE 0)
WorkingRange(kind, f32) == IF kind \in {"phi", "tanh"} THEN (IF f32 THEN 12 ELSE 30) ELSE 1000000
\* (d-2)*ln2 in micro-units
Ln2u == 693148
=============================================================================
