------------------------------- MODULE Linalg -------------------------------
(***************************************************************************)
(* src/linalg.rs over GF(2), implementation-shaped: one operator per       *)
(* outer-loop iteration of gauss_reduction (forward, backward) and of      *)
(* row_echelon_form.  The MC modules turn each into one action.            *)
(* A is n x m (the code's names), n <= m for gauss_reduction.              *)
(***************************************************************************)
EXTENDS GF2

Min(S) == CHOOSE x \in S : \A y \in S : x <= y

\* swap rows j and k in columns from.. (the code swaps only t in j..m)
SwapFrom(a, j, k, from) ==
  [r \in 1..Len(a) |-> [t \in 1..Len(a[r]) |->
     IF t < from THEN a[r][t]
     ELSE IF r = j THEN a[k][t] ELSE IF r = k THEN a[j][t] ELSE a[r][t]]]

\* rows in `targets' with a one in column j get row p subtracted, in columns from..
Eliminate(a, p, j, targets, from) ==
  [r \in 1..Len(a) |-> [t \in 1..Len(a[r]) |->
     IF r \in targets /\ a[r][j] = 1 /\ t >= from THEN Add(a[r][t], a[p][t]) ELSE a[r][t]]]

-----------------------------------------------------------------------------
(* gauss_reduction: forward iteration j (1-based). Returns [ok, a].        *)
GaussForward(a, j) ==
  LET n == Len(a)
      cand == { k \in j..n : a[k][j] = 1 }
  IN IF cand = {} THEN [ok |-> FALSE, a |-> a]
     ELSE LET k  == Min(cand)                                  \* first non-zero at or below j
              a1 == IF k # j THEN SwapFrom(a, j, k, j) ELSE a
              \* x = a[j][j] is one in GF(2): no division
              a2 == Eliminate(a1, j, j, (j+1)..n, j)
          IN [ok |-> TRUE, a |-> a2]

GaussBackward(a, j) == Eliminate(a, j, j, 1..(j-1), j)

RECURSIVE GaussFwdAll(_, _), GaussBwdAll(_, _)
GaussFwdAll(a, j) == IF j > Len(a) THEN [ok |-> TRUE, a |-> a]
                     ELSE LET s == GaussForward(a, j) IN IF s.ok THEN GaussFwdAll(s.a, j + 1) ELSE s
GaussBwdAll(a, j) == IF j = 0 THEN a ELSE GaussBwdAll(GaussBackward(a, j), j - 1)
GaussReduction(a) == LET f == GaussFwdAll(a, 1) IN
                     IF f.ok THEN [ok |-> TRUE, a |-> GaussBwdAll(f.a, Len(a))] ELSE f

-----------------------------------------------------------------------------
(* row_echelon_form: state <<a, j, k>> (column j, row k, both 1-based).    *)
EchelonDone(a, j, k) == ~(j <= NCols(a) /\ k <= Len(a))
EchelonStep(a, j, k) ==
  LET n == Len(a)
      cand == { s \in k..n : a[s][j] = 1 }
  IN IF cand = {} THEN <<a, j + 1, k>>
     ELSE LET s  == Min(cand)
              a1 == IF s # k THEN SwapFrom(a, s, k, j) ELSE a
              a2 == Eliminate(a1, k, j, (k+1)..n, j)
          IN <<a2, j + 1, k + 1>>
RECURSIVE EchelonRun(_, _, _)
EchelonRun(a, j, k) == IF EchelonDone(a, j, k) THEN a
                       ELSE LET s == EchelonStep(a, j, k) IN EchelonRun(s[1], s[2], s[3])
RowEchelon(a) == EchelonRun(a, 1, 1)

\* what an echelon form is (used to check the algorithm, not to define it)
LeadCol(row) == IF \E t \in 1..Len(row) : row[t] = 1 THEN Min({t \in 1..Len(row) : row[t] = 1}) ELSE Len(row) + 1
IsEchelon(a) == \A r \in 1..Len(a) - 1 :
                   LET l1 == LeadCol(a[r]) l2 == LeadCol(a[r+1]) m == NCols(a) IN
                   (l1 <= m => l2 > l1) /\ (l1 = m + 1 => l2 = m + 1)
=============================================================================
