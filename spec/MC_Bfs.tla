------------------------------- MODULE MC_Bfs -------------------------------
(***************************************************************************)
(* Design-level check of C11: on EVERY bipartite graph with NR x NC nodes, *)
(* every root and every bound, the queue algorithms of BfsAlgo compute the *)
(* declarative quantities of Tanner.  One action per popped path head.     *)
(***************************************************************************)
EXTENDS BfsAlgo, TLC
CONSTANTS NR, NC, Bounds
BoundsAll == {-1, 0, 2, 4, 5, 6, 8}
BoundsNone == {-1}
VARIABLES adj, root, max, mode, dist, br, q, pc, res
vars == <<adj, root, max, mode, dist, br, q, pc, res>>

Cells == (0..NR-1) \X (0..NC-1)
AdjOf(E) == [v \in NodesOf(NR, NC) |->
               IF v < NR THEN { NR + p[2] : p \in { e \in E : e[1] = v } }
               ELSE { p[1] : p \in { e \in E : e[2] = v - NR } }]

Init == /\ \E E \in SUBSET Cells : adj = AdjOf(E)
        /\ root \in NodesOf(NR, NC)
        /\ mode \in {"bfs", "local"}
        /\ max \in (IF mode = "bfs" THEN {-1} ELSE Bounds)
        /\ dist = InitDist(adj, root) /\ br = InitBranch(adj) /\ q = InitQueue(root)
        /\ pc = "run" /\ res = -1

StepBfs ==
  /\ pc = "run" /\ mode = "bfs" /\ UNCHANGED <<adj, root, max, mode, br, res>>
  /\ IF q = <<>> THEN pc' = "done" /\ UNCHANGED <<dist, q>>
     ELSE LET s == PopBfs(adj, dist, q) IN dist' = s[1] /\ q' = s[2] /\ UNCHANGED pc

StepLocal ==
  /\ pc = "run" /\ mode = "local" /\ UNCHANGED <<adj, root, max, mode>>
  /\ IF q = <<>> THEN pc' = "done" /\ res' = -1 /\ UNCHANGED <<dist, br, q>>
     ELSE LET s == PopLocal(adj, dist, br, q, max) IN
          /\ dist' = s.dist /\ br' = s.br /\ q' = s.q
          /\ IF s.done THEN pc' = "done" /\ res' = s.res ELSE UNCHANGED <<pc, res>>

Next == StepBfs \/ StepLocal
Spec == Init /\ [][Next]_vars

DistancesExact  == pc = "done" /\ mode = "bfs"   => dist = DistFrom(adj, root)
LocalGirthExact == pc = "done" /\ mode = "local" => res = Bounded(LocalGirth(adj, root), max)
\* girth() takes the minimum over column nodes only: equal to the true girth
GirthExact == pc = "done" /\ mode = "local" /\ root = 0 =>
                 GirthAlgo(adj, NR, NC, max) = Bounded(Girth(adj), max)
\* even the as-found first-collision rule never OVER-estimates, and the global girth is right
\* (used by MacKayNeal.tla: a lower bound is enough for the min-girth guarantee)
LowerBound == pc = "done" /\ mode = "local" /\ max = -1 /\ res # -1 =>
                 LocalGirth(adj, root) = -1 \/ res <= LocalGirth(adj, root)
=============================================================================
