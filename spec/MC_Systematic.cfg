CONSTANTS RMax = 3 NMax = 4 AssertAtTop = FALSE
INIT Init
NEXT Next
INVARIANTS EchelonOK NoPanic SysOKInv EncoderAccepts
CHECK_DEADLOCK FALSE
