----------------------------- MODULE Trace_C02 -----------------------------
(***************************************************************************)
(* C02: every observed (matrix, verdict, encodings) of the real            *)
(* Encoder::from_h / encode must satisfy the property-level relations of   *)
(* Encoder.tla.  One event = one case:                                     *)
(*  Enc {r, n, rows, acc, pairs:[{m,c}], lin:[[a,b,s]], cert}             *)
(*   rows : adjacency lists (0-based columns) of H                         *)
(*   acc  : from_h returned Ok                                             *)
(*   pairs: (message, codeword) as bit sequences                           *)
(*   lin  : index triples into pairs with m_s = m_a + m_b (checked here)   *)
(*   cert : for r > BruteMax, a witness from the harness oracle that TLC   *)
(*          verifies: {kind:"inv", w: inverse of the tail} or              *)
(*          {kind:"ker", w:[x]} with tail * x = 0, x # 0                   *)
(***************************************************************************)
EXTENDS TraceKit, Encoder

BruteMax == 7

VARIABLES l
vars == <<l>>

VerdictOK(ev, H) ==
  IF ev.r <= BruteMax THEN FromHOK(H, ev.acc)
  ELSE \/ ev.acc  /\ ev.cert.kind = "inv" /\ IsInverse(TailM(H), ev.cert.w)
       \/ ~ev.acc /\ ev.cert.kind = "ker" /\ IsKernelVec(TailM(H), ev.cert.w[1])

PairsOK(ev, H) ==
  /\ ~ev.acc => Len(ev.pairs) = 0
  /\ \A p \in 1..Len(ev.pairs) : Len(ev.pairs[p].m) = ev.n - ev.r /\ EncOK(H, ev.pairs[p].m, ev.pairs[p].c)
  /\ \A t \in 1..Len(ev.lin) :
       LET x == ev.pairs[ev.lin[t][1]] y == ev.pairs[ev.lin[t][2]] z == ev.pairs[ev.lin[t][3]] IN
       /\ z.m = VecAdd(x.m, y.m)            \* the triple really is a sum of messages
       /\ z.c = VecAdd(x.c, y.c)            \* linearity of the encoder

EncEvOK(ev) ==
  /\ ev.o = "ok" /\ ev.r >= 1 /\ ev.n >= ev.r /\ Len(ev.rows) = ev.r
  /\ LET H == Dense(ev.rows, ev.n) IN VerdictOK(ev, H) /\ PairsOK(ev, H)

\* src/gf2.rs: the field operations in all operator forms; division by zero panics (documented), nothing else does
Gf2OK(ev) ==
  /\ ev.o = "ok"
  /\ CASE ev.op = "add" -> ~ev.panicked /\ ev.res = Add(ev.a, ev.b)
       [] ev.op = "sub" -> ~ev.panicked /\ ev.res = Add(ev.a, ev.b)
       [] ev.op = "mul" -> ~ev.panicked /\ ev.res = Mul(ev.a, ev.b)
       [] ev.op = "div" -> IF DivDefined(ev.a, ev.b) THEN ~ev.panicked /\ ev.res = Div(ev.a, ev.b) ELSE ev.panicked
       [] OTHER -> FALSE
Gf2SumOK(ev) == ev.o = "ok" /\ ev.res = SumBits(ev.bits, Len(ev.bits))

OK(ev) == CASE ev.e = "Enc" -> EncEvOK(ev) [] ev.e = "Gf2" -> Gf2OK(ev) [] ev.e = "Gf2Sum" -> Gf2SumOK(ev) [] OTHER -> FALSE

Init == l = 1
Step == /\ l <= NRec
        /\ IF OK(Rec[l]) THEN l' = l + 1 ELSE Reject(l, "C02") /\ l' = Rec[l].nx
Fin  == l = NRec + 1 /\ Done(l) /\ l' = l + 1
Next == Step \/ Fin
=============================================================================
