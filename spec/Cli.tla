--------------------------------- MODULE Cli ---------------------------------
(***************************************************************************)
(* src/cli (C20): for each subcommand the relation between arguments, exit *)
(* status and outputs.  The argument -> code identifier tables are typed   *)
(* from the documentation (21 + 9 + 1 rows).                               *)
(***************************************************************************)
EXTENDS Integers, Sequences, FiniteSets

NormalRates == [r \in {"1/4", "1/3", "2/5", "1/2", "3/5", "2/3", "3/4", "4/5", "5/6", "8/9", "9/10"} |->
  CASE r = "1/4" -> "R1_4" [] r = "1/3" -> "R1_3" [] r = "2/5" -> "R2_5" [] r = "1/2" -> "R1_2" [] r = "3/5" -> "R3_5" [] r = "2/3" -> "R2_3"
    [] r = "3/4" -> "R3_4" [] r = "4/5" -> "R4_5" [] r = "5/6" -> "R5_6" [] r = "8/9" -> "R8_9" [] r = "9/10" -> "R9_10"]
ShortRates == DOMAIN NormalRates \ {"9/10"}                        \* there is no short 9/10 code
DvbValid(rate, short) == IF short THEN rate \in ShortRates ELSE rate \in DOMAIN NormalRates
DvbCode(rate, short) == IF short THEN NormalRates[rate] \o "short" ELSE NormalRates[rate]
CcsdsRates == [r \in {"1/2", "2/3", "4/5"} |-> CASE r = "1/2" -> "R1_2" [] r = "2/3" -> "R2_3" [] r = "4/5" -> "R4_5"]
CcsdsSizes == {"1024", "4096", "16384"}
CcsdsValid(rate, bs) == rate \in DOMAIN CcsdsRates /\ bs \in CcsdsSizes
CcsdsCode(rate, bs) == CcsdsRates[rate] \o "_K" \o bs
ASSUME Cardinality({ <<r, s>> \in (DOMAIN NormalRates) \X BOOLEAN : DvbValid(r, s) }) = 21
ASSUME Cardinality({ <<r, b>> \in (DOMAIN CcsdsRates) \X CcsdsSizes : TRUE }) = 9

\* documented girths
DocumentedGirth(sub, rate, short, bs) ==
  IF sub = "dvbs2" /\ rate = "1/2" /\ ~short THEN "Code girth = 6"
  ELSE IF sub = "ccsds" /\ rate = "1/2" /\ bs = "1024" THEN "Code girth = 6" ELSE ""

\* a failure is a non-zero exit status with a message, not a panic and not a hang
\* ber: the requested Eb/N0 values are min, min + step, ..., not beyond max (src/cli/ber.rs: floor((max - min) / step) + 1 points)
EbN0Points(minC, maxC, stepC) == IF maxC < minC THEN 0 ELSE ((maxC - minC) \div stepC) + 1
CleanFailure(ev) == ev.status # 0 /\ ~ev.panicked /\ ~ev.timed_out /\ ev.stderr_len > 0
Success(ev) == ev.status = 0 /\ ~ev.panicked /\ ~ev.timed_out
=============================================================================
