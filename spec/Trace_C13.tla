----------------------------- MODULE Trace_C13 -----------------------------
(***************************************************************************)
(* C13: runs of the real BER engine judged from the collector's point of   *)
(* view.  One event (= one case) per run:                                  *)
(*  BerRun {cfg, result, stats, reports, workers, built, dropped, k}       *)
(*    workers[d] : outcomes [be, ok, it] produced by decoder d (decoders   *)
(*                 are numbered in build order: W per epoch)               *)
(*    reports    : the reporter stream (interval 0: one cumulative report  *)
(*                 after (almost) every consumed result, a final one per   *)
(*                 epoch, then finished = TRUE)                            *)
(*    stats      : the Vec<Statistics> that run() returned                 *)
(* For fault-free runs TLC must EXPLAIN the report stream: every report is *)
(* reached by consuming next outcomes of some workers of the epoch (each   *)
(* worker's results arrive in its own order; which worker was consumed is  *)
(* not logged and is inferred by search), counters are exact sums, ratios  *)
(* are the stated quotients, each epoch stops exactly on the frame that    *)
(* completes the target, the returned statistics equal the last report of  *)
(* the epoch, every decoder is dropped before run() returns and `finished' *)
(* comes last, exactly once.  Injected faults must end in an error, never  *)
(* in a hang or a panic.                                                   *)
(* A case with no accepting path leaves no ACCEPT line; the driver reports *)
(* it and validates the rest of the trace without it.                      *)
(***************************************************************************)
EXTENDS TraceKit, BerStats

VARIABLES l, ph, ep, pos, cur, ri, lastErr
vars == <<l, ph, ep, pos, cur, ri, lastErr>>

Accept(k) == PrintT(<<"ACCEPT", k, Rec[k].i>>)
Abs(x) == IF x < 0 THEN -x ELSE x
RatioOK(num, den, u) == den = 0 \/ Abs(u * den - num * 1000000) <= den          \* u = round(1e6 * num / den)
EbN0(e) == 35000 + (e - 1) * 1000

CountersEq(c, R, bch) ==
  /\ c.frames = R.frames /\ c.ferr = R.ferr /\ c.fdec = R.fdec /\ c.berr = R.berr
  /\ c.iters = R.iters /\ c.citers = R.citers
  /\ R.has_bch = (bch > 0)
  /\ (bch > 0 => c.bferr = R.bferr /\ c.bberr = R.bberr /\ c.bciters = R.bciters)
RatiosOK(R, bch) ==
  /\ RatioOK(R.berr, R.k * R.frames, R.ber_u) /\ RatioOK(R.ferr, R.frames, R.fer_u)   \* BER over systematic bits, FER
  /\ RatioOK(R.iters, R.frames, R.avg_u)
  /\ (bch > 0 => RatioOK(R.bberr, R.k * R.frames, R.bber_u) /\ RatioOK(R.bferr, R.frames, R.bfer_u))

\* workers per epoch as OBSERVED (decoders built / epochs): the requested count is only a request to the scheduler
NW(ev) == ev.built \div ev.cfg.epochs

FinishedLastOnce(reps) ==
  /\ Len(reps) >= 1 /\ reps[Len(reps)].finished
  /\ \A k \in 1..Len(reps) - 1 : ~reps[k].finished

FaultOK(ev) ==
  /\ ev.o = "ok"                                         \* returned: neither hang, nor panic, nor abort
  /\ FinishedLastOnce(ev.reports) /\ ev.built = ev.dropped
  /\ CASE ev.cfg.fault = "puncturer_misfit" -> ev.result = "error" /\ Len(ev.stats) = 0
       [] ev.cfg.fault \in {"interleaver_misfit", "psk8_misfit"} -> ev.result = "error"
       \* a worker whose decoder panicked cannot be joined cleanly: the run must report an error; when no decoder was ever asked to decode
       \* its fatal frame (a worker can be told to stop first) the run may also end normally
       [] ev.cfg.fault = "decoder_panic" -> IF ev.panics > 0 THEN ev.result = "error" ELSE ev.result \in {"ok", "error"}
       [] OTHER -> FALSE

\* Cheap NECESSARY conditions of the search below (Match: the counted errors never exceed the target; EpochEnd: the returned
\* statistics stop exactly on it; Consume: no more frames than the decoders produced), evaluated first so that a run that
\* overshoots is rejected at once instead of after an exhaustive search for an explanation that cannot exist.
RErr(R, bch) == IF bch > 0 THEN R.bferr ELSE R.ferr
Plausible(ev) ==
  /\ \A k \in 1..Len(ev.reports) : ev.reports[k].finished \/ RErr(ev.reports[k], ev.cfg.bch) <= ev.cfg.target
  /\ \A e \in 1..Len(ev.stats) : RErr(ev.stats[e], ev.cfg.bch) = ev.cfg.target

Init == l = 1 /\ ph = "idle" /\ ep = 0 /\ pos = <<>> /\ cur = Zero /\ ri = 0 /\ lastErr = FALSE
Idle == ph' = "idle" /\ ep' = 0 /\ pos' = <<>> /\ cur' = Zero /\ ri' = 0 /\ lastErr' = FALSE

Start ==
  /\ ph = "idle" /\ l <= NRec
  /\ LET ev == Rec[l] IN
     IF ev.e # "BerRun" THEN Reject(l, "unknown event") /\ l' = l + 1 /\ Idle
     ELSE IF ev.cfg.fault # "none" THEN
          (IF FaultOK(ev) THEN Accept(l) ELSE Reject(l, "fault")) /\ l' = l + 1 /\ Idle
     ELSE IF ev.o = "ok" /\ ev.result = "ok" /\ ~Plausible(ev) THEN Reject(l, "stopping rule") /\ l' = l + 1 /\ Idle
     ELSE /\ ev.o = "ok" /\ ev.result = "ok" /\ ev.built >= ev.cfg.epochs /\ ev.built % ev.cfg.epochs = 0   \* otherwise: no step, no ACCEPT
          /\ ph' = "run" /\ ep' = 1 /\ pos' = [d \in 1..ev.built |-> 0] /\ cur' = Zero /\ ri' = 1 /\ lastErr' = FALSE
          /\ UNCHANGED l

InEpoch(ev, R) == ~R.finished /\ R.ebn0_m = EbN0(ep)

Consume ==
  /\ ph = "run"
  /\ LET ev == Rec[l] IN
     /\ ri <= Len(ev.reports) /\ ep <= ev.cfg.epochs
     /\ LET R == ev.reports[ri] IN
        /\ InEpoch(ev, R) /\ cur.frames < R.frames
        /\ \E d \in ((ep - 1) * NW(ev) + 1)..(ep * NW(ev)) :
             /\ pos[d] < Len(ev.workers[d])
             /\ LET nxt == AccT(cur, ev.workers[d][pos[d] + 1], ev.cfg.bch) IN
                /\ nxt.ferr <= R.ferr /\ nxt.berr <= R.berr /\ nxt.iters <= R.iters      \* prune: counters only grow
                /\ cur' = nxt /\ pos' = [pos EXCEPT ![d] = @ + 1]
                /\ lastErr' = (ErrorsT(nxt, ev.cfg.bch) > ErrorsT(cur, ev.cfg.bch))
  /\ UNCHANGED <<l, ph, ep, ri>>

Match ==
  /\ ph = "run"
  /\ LET ev == Rec[l] IN
     /\ ri <= Len(ev.reports) /\ ep <= ev.cfg.epochs
     /\ LET R == ev.reports[ri] IN
        /\ InEpoch(ev, R) /\ cur.frames = R.frames
        /\ CountersEq(cur, R, ev.cfg.bch) /\ RatiosOK(R, ev.cfg.bch)
        /\ ErrorsT(cur, ev.cfg.bch) <= ev.cfg.target
  /\ ri' = ri + 1 /\ UNCHANGED <<l, ph, ep, pos, cur, lastErr>>

EpochEnd ==
  /\ ph = "run"
  /\ LET ev == Rec[l] IN
     /\ ri <= Len(ev.reports) /\ ri > 1 /\ ep <= ev.cfg.epochs
     /\ ~InEpoch(ev, ev.reports[ri])                                   \* the next report belongs to the next epoch / is `finished'
     /\ InEpoch(ev, ev.reports[ri - 1])                                \* at least the final report of this epoch was seen
     /\ ErrorsT(cur, ev.cfg.bch) = ev.cfg.target /\ lastErr             \* stopped exactly on the frame that completed the target
     /\ Len(ev.stats) >= ep
     /\ CountersEq(cur, ev.stats[ep], ev.cfg.bch) /\ RatiosOK(ev.stats[ep], ev.cfg.bch)    \* returned statistics = final report
     /\ ev.stats[ep].ebn0_m = EbN0(ep)
  /\ ep' = ep + 1 /\ cur' = Zero /\ lastErr' = FALSE /\ UNCHANGED <<l, ph, pos, ri>>

RunEnd ==
  /\ ph = "run"
  /\ LET ev == Rec[l] IN
     /\ ep = ev.cfg.epochs + 1 /\ ri = Len(ev.reports) /\ ev.reports[ri].finished     \* `finished' last, exactly once
     /\ FinishedLastOnce(ev.reports)
     /\ Len(ev.stats) = ev.cfg.epochs                                                 \* one statistics entry per Eb/N0, in order
     /\ ev.built = ev.dropped                                                         \* every worker joined before run() returned
     /\ Accept(l)
  /\ l' = l + 1 /\ Idle

Fin == ph = "idle" /\ l = NRec + 1 /\ Done(l) /\ l' = l + 1 /\ UNCHANGED <<ph, ep, pos, cur, ri, lastErr>>
Next == Start \/ Consume \/ Match \/ EpochEnd \/ RunEnd \/ Fin
=============================================================================
