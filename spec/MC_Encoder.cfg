CONSTANTS RMax = 3 NMax = 4
INIT Init
NEXT Next
INVARIANTS VerdictOK CodewordOK LinearOK StaircaseInvertible SameAsFunctional JordanOK ArmsAgree
CHECK_DEADLOCK FALSE
