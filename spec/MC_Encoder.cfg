CONSTANTS RMax = 3 NMax = 4
INIT Init
NEXT Next
INVARIANTS VerdictOK CodewordOK LinearOK StaircaseInvertible SameAsFunctional JordanOK
CHECK_DEADLOCK FALSE
