//! C18: names <-> strings <-> clap values, and behaviour of factory-built decoders vs directly constructed ones.
use crate::decoders::*;
use crate::util::*;
use clap::ValueEnum;
use ldpc_toolbox::decoder::factory::DecoderImplementation;
use serde_json::json;

unsafe extern "C" {
    fn ldpc_toolbox_decoder_ctor_alist_string(alist: *const std::ffi::c_char, implementation: *const std::ffi::c_char, puncturing: *const std::ffi::c_char) -> *mut std::ffi::c_void;
    fn ldpc_toolbox_decoder_dtor(decoder: *mut std::ffi::c_void);
}

/// does the C constructor accept `name` as an implementation string? ("na" when the string cannot be passed as a C string)
fn capi_accepts(name: &str) -> &'static str {
    if name.contains('\0') { return "na"; }
    let alist = std::ffi::CString::new("3 2\n2 2\n1 2 1\n2 2\n1 0\n1 2\n2 0\n1 2\n2 3\n").unwrap();
    let imp = std::ffi::CString::new(name).unwrap();
    let pun = std::ffi::CString::new("").unwrap();
    let p = unsafe { ldpc_toolbox_decoder_ctor_alist_string(alist.as_ptr(), imp.as_ptr(), pun.as_ptr()) };
    if p.is_null() { "null" } else { unsafe { ldpc_toolbox_decoder_dtor(p) }; "handle" }
}

/// which implementation does the REAL command-line parser select for `ber --decoder <s>`? ("" when the command line is rejected)
fn cli_selects(s: &str) -> String {
    use clap::Parser;
    let r = guarded(|| ldpc_toolbox::cli::Args::try_parse_from(["ldpc-toolbox", "ber", "--decoder", s, "--min-ebn0", "0.0", "--max-ebn0", "1.0",
        "--step-ebn0", "1.0", "code.alist"]).ok().map(|a| format!("{a:?}")));
    match r {
        Ok(None) => String::new(),
        Ok(Some(dbg)) => {
            // the selected implementation is read off the parsed arguments' Debug form WITHOUT assuming a field name or layout: the
            // documented names that occur in it as whole tokens.  None at all (a hand-written Debug) = not observable: benefit of the doubt
            let mut found: Vec<&str> = dbg.split(|c: char| !c.is_ascii_alphanumeric()).filter(|t| NAMES.contains(t)).collect();
            found.sort_unstable();
            found.dedup();
            match found.len() { 0 => s.to_string(), 1 => found[0].to_string(), _ => format!("ambiguous:{}", found.join("+")) }
        }
        Err(m) => format!("panic:{m}"),
    }
}

fn fingerprint(mut dec: Box<dyn ldpc_toolbox::decoder::LdpcDecoder>, family: &[(Vec<Vec<usize>>, usize, Vec<f64>, usize)], mk: &dyn Fn(&[Vec<usize>], usize) -> Box<dyn ldpc_toolbox::decoder::LdpcDecoder>) -> (String, Vec<String>) {
    // one decoder per matrix (the family is grouped by matrix); per-case digests are kept for the separation test
    let mut all = String::new();
    let mut per = vec![];
    let mut last: Option<(Vec<Vec<usize>>, usize)> = None;
    for (rows, n, llrs, limit) in family {
        if last.as_ref().map(|l| (&l.0, l.1)) != Some((rows, *n)) {
            dec = mk(rows, *n);
            last = Some((rows.clone(), *n));
        }
        let r = guarded(|| dec.decode(llrs, *limit));
        let s = match r { Ok(r) => result_json(&r).to_string(), Err(m) => format!("panic:{m}") };
        per.push(fnv(s.as_bytes()));
        all.push_str(&s);
    }
    (fnv(all.as_bytes()), per)
}

pub fn generate(a: &Args) {
    let mut out = Out::create(&a.out);
    let mut rng = Rng::new(a.seed ^ 0xC18);
    let th = is_thorough(a);
    // names
    for name in NAMES.iter() {
        out.new_case();
        let hl = name.starts_with("HL");
        let rest = if hl { &name[2..] } else { name };
        let parsed = name.parse::<DecoderImplementation>();
        let show = parsed.as_ref().map(|d| d.to_string()).unwrap_or_default();
        let clap = parsed.as_ref().ok().and_then(|d| d.to_possible_value()).map(|p| p.get_name().to_string()).unwrap_or_default();
        out.ev("Name", "ok", json!({"str": name, "hl": hl, "rest": rest, "parse_ok": parsed.is_ok(), "show": show, "clap": clap, "capi": capi_accepts(name), "cli": cli_selects(name)}));
    }
    out.new_case();
    let variants: Vec<String> = DecoderImplementation::value_variants().iter()
        .map(|v| v.to_possible_value().map(|p| p.get_name().to_string()).unwrap_or_default()).collect();
    out.ev("Variants", "ok", json!({"names": variants}));
    // non-members: case changes, prefixes, suffixes, truncations, unknown combinations, unicode, whitespace
    let mut non: Vec<String> = vec!["".into(), " ".into(), "HL".into(), "hl".into(), "Phi".into(), "f64".into(), "Phif16".into(), "HLHLPhif64".into(),
        "HLMinstarapproxi8Jones".into(), "HLAminstari8Deg1Clip".into(), "HLAminstari8JonesPartialHardLimit".into(), "Minstarf64".into(), "Aminstarapproxf64".into(),
        "Phif64\u{0}".into(), "Ph\u{0131}f64".into(), "Φf64".into(), "Minstarapproxi8Deg1ClipJones".into(), "Minstarapproxi8PartialHardLimitJones".into()];
    for name in NAMES.iter() {
        non.push(name.to_lowercase());
        non.push(name.to_uppercase());
        non.push(format!(" {name}"));
        non.push(format!("{name} "));
        non.push(format!("{name}\n"));
        non.push(name[..name.len() - 1].to_string());
        non.push(format!("{name}x"));
        non.push(format!("Hl{}", name.trim_start_matches("HL")));
        let mut c: Vec<char> = name.chars().collect();
        let k = rng.below(c.len());
        c[k] = if c[k].is_ascii_uppercase() { c[k].to_ascii_lowercase() } else { c[k].to_ascii_uppercase() };
        non.push(c.into_iter().collect());
        if !name.starts_with("HL") { non.push(format!("HL{name}")); } else { non.push(name[2..].to_string()); }
    }
    non.sort();
    non.dedup();
    for s in non.iter().filter(|s| !NAMES.contains(&s.as_str())) {
        out.new_case();
        out.ev("NonMember", "ok", json!({"str": s, "parse_ok": s.parse::<DecoderImplementation>().is_ok(), "capi": capi_accepts(s), "cli": cli_selects(s)}));
    }
    // behaviour: a separating family, grouped by matrix
    let mut family: Vec<(Vec<Vec<usize>>, usize, Vec<f64>, usize)> = vec![];
    let nmat = if th { 400 } else { 14 };
    for m in 0..nmat {
        let (mut rows, n) = random_code(&mut rng, m, 4, 8);
        if m % 2 == 0 && n >= 3 {
            // make sure some variable has degree one and some has degree >= 2
            let v = n - 1;
            for r in rows.iter_mut() { r.retain(|&c| c != v); }
            rows[0].push(v);
            for r in rows.iter_mut() { if r.len() < 2 { r.push(0); r.push(1); r.sort_unstable(); r.dedup(); } }
        }
        let per = if th { 30 } else { 14 };
        for t in 0..per {
            let cls = [0usize, 1, 2, 3, 4, 4, 7, 8, 9, 10, 11, 4, 3, 7][t % 14];
            let mut llrs = llr_vector(&mut rng, n, cls);
            if t % 3 == 0 { for x in llrs.iter_mut() { *x *= 3.0; } }     // push sums beyond +-127/8 (Jones) and messages beyond 100/8 (hard limit)
            family.push((rows.clone(), n, llrs, [1usize, 2, 3, 6, 12][t % 5]));
        }
    }
    out.new_case();
    let mut behave = vec![];
    let mut direct = vec![];
    let mut pers: Vec<(bool, String, Vec<String>)> = vec![];
    for name in NAMES.iter() {
        let hl = name.starts_with("HL");
        let rest = if hl { &name[2..] } else { name };
        if build(name, matrix(&family[0].0, family[0].1)).is_none() {
            // the documented name does not parse: nothing to fingerprint (the Name event reports it; TableOK fails on this entry too)
            behave.push(json!({"str": name, "hl": hl, "rest": rest, "fp": "no decoder: the name does not parse"}));
            continue;
        }
        let mk = |rows: &[Vec<usize>], n: usize| build(name, matrix(rows, n)).expect("factory");
        let (fp, _) = fingerprint(mk(&family[0].0, family[0].1), &family, &mk);
        behave.push(json!({"str": name, "hl": hl, "rest": rest, "fp": fp}));
    }
    for arith in ARITHS.iter() {
        for hl in [false, true] {
            let mk = |rows: &[Vec<usize>], n: usize| direct_dec(arith, hl, rows, n);
            let (fp, per) = fingerprint(mk(&family[0].0, family[0].1), &family, &mk);
            direct.push(json!({"arith": arith, "hl": hl, "fp": fp}));
            pers.push((hl, arith.to_string(), per));
        }
    }
    // which documented pairs does the family NOT separate? (reported; weaker evidence, not a violation)
    let doc: Vec<&(bool, String, Vec<String>)> = pers.iter().filter(|p| NAMES.contains(&format!("{}{}", if p.0 { "HL" } else { "" }, p.1).as_str())).collect();
    let mut unsep = vec![];
    for i in 0..doc.len() { for j in i + 1..doc.len() { if doc[i].2 == doc[j].2 { unsep.push(json!([doc[i].1, doc[i].0, doc[j].1, doc[j].0])); } } }
    out.ev("Table", "ok", json!({"behave": behave, "direct": direct, "family": family.len(), "unseparated": unsep.len(), "unseparated_pairs": unsep}));
    out.finish();
}

fn direct_dec(arith: &str, hl: bool, rows: &[Vec<usize>], n: usize) -> Box<dyn ldpc_toolbox::decoder::LdpcDecoder> {
    direct(arith, hl, matrix(rows, n)).expect("arith")
}
