//! C20: the built command-line binary (path in $VH_CLI) run in a sandbox directory with a timeout; outputs are
//! paired with values computed in-process through the library.
use crate::bersup::systematic_code;
use crate::c02::rows_of;
use crate::decoders::{matrix, random_code};
use crate::sha256::sha256_hex;
use crate::util::*;
use ldpc_toolbox::codes::ccsds::{AR4JACode, AR4JAInfoSize, AR4JARate, C2Code};
use ldpc_toolbox::codes::dvbs2::Code as DvbCode;
use ldpc_toolbox::encoder::Encoder;
use ldpc_toolbox::gf2::GF2;
use ldpc_toolbox::mackay_neal::{Config as MknConfig, FillPolicy};
use ldpc_toolbox::peg::Config as PegConfig;
use ldpc_toolbox::simulation::puncturing::Puncturer;
use ldpc_toolbox::sparse::SparseMatrix;
use ndarray::Array1;
use num_traits::{One, Zero};
use serde_json::{Value, json};
use std::process::{Command, Stdio};

struct Ran { status: i64, stdout: Vec<u8>, stderr: String, timed_out: bool }

fn run_cli(dir: &str, args: &[String], limit_s: u64) -> Ran {
    let cli = std::env::var("VH_CLI").expect("VH_CLI");
    let out = Command::new("timeout").arg(limit_s.to_string()).arg(&cli).args(args).current_dir(dir)
        .stdin(Stdio::null()).env("NO_COLOR", "1").env("TERM", "dumb").output().expect("spawn cli");
    let status = out.status.code().map(|c| c as i64).unwrap_or(-1);
    Ran { status, stdout: out.stdout, stderr: String::from_utf8_lossy(&out.stderr).to_string(), timed_out: status == 124 }
}

fn base_ev(args: &[String], r: &Ran) -> Value {
    json!({"argv": args, "status": r.status, "panicked": r.stderr.contains("panicked") || r.status == 101 || r.status == -1, "timed_out": r.timed_out,
        "stderr_len": r.stderr.trim().len(), "stdout_len": r.stdout.len()})
}

/// sha of the canonical alist of the matrix that `text` parses to ("unparseable" otherwise)
fn canon_sha(text: &[u8]) -> String {
    match std::str::from_utf8(text).ok().and_then(|t| SparseMatrix::from_alist(t).ok()) {
        Some(h) => sha256_hex(h.alist().as_bytes()),
        None => "unparseable".into(),
    }
}

fn s(x: &str) -> String { x.to_string() }

/// the result rows of a file written by `ber --output-file`
fn parse_ber_file(path: &str) -> Vec<Value> {
    let text = std::fs::read_to_string(path).unwrap_or_default();
    text.lines().filter(|l| l.matches('|').count() == 10 && l.trim_start().chars().next().map(|c| c == '-' || c.is_ascii_digit()).unwrap_or(false) && !l.starts_with("--------"))
        .map(|l| {
            let f: Vec<&str> = l.split('|').map(|x| x.trim()).collect();
            let num = |x: &str| x.parse::<f64>().unwrap_or(f64::NAN);
            json!({"ebn0_c": (num(f[0]) * 100.0).round() as i64, "frames": num(f[1]) as i64, "berr": num(f[2]) as i64, "ferr": num(f[3]) as i64, "fdec": num(f[4]) as i64,
                "ber_n": (num(f[5]) * 1e9).round().min(2.0e9) as i64, "fer_u": (num(f[6]) * 1e6).round() as i64})
        }).collect()
}

/// A decoder "implementation" for the ber subcommand (its Args type is generic over the factory): at 40 dB the hard decision of the
/// LLRs is the transmitted codeword; frame number q of each decoder gets 1 systematic bit error if q is even and 3 if q is odd, is
/// reported as failed, and took 2 iterations. With an outer code correcting 2 errors EVERY frame is an LDPC frame error and every
/// second frame an outer-code frame error.
#[derive(Clone, Copy, Debug, PartialEq, Eq)]
pub enum CliScript { Alt13 }
impl clap::ValueEnum for CliScript {
    fn value_variants<'a>() -> &'a [Self] { &[CliScript::Alt13] }
    fn to_possible_value(&self) -> Option<clap::builder::PossibleValue> { Some(clap::builder::PossibleValue::new("Alt13")) }
}
impl std::fmt::Display for CliScript { fn fmt(&self, f: &mut std::fmt::Formatter<'_>) -> std::fmt::Result { write!(f, "Alt13") } }
#[derive(Debug)]
struct AltDecoder { k: usize, q: usize }
impl ldpc_toolbox::decoder::LdpcDecoder for AltDecoder {
    fn decode(&mut self, llrs: &[f64], _max_iterations: usize) -> Result<ldpc_toolbox::decoder::DecoderOutput, ldpc_toolbox::decoder::DecoderOutput> {
        let mut w: Vec<u8> = llrs.iter().map(|&x| (x <= 0.0) as u8).collect();
        let flips = if self.q % 2 == 0 { 1 } else { 3 };
        for t in 0..flips.min(self.k) { let p = (self.q * 5 + t) % self.k; w[p] ^= 1; }
        self.q += 1;
        Err(ldpc_toolbox::decoder::DecoderOutput { codeword: w, iterations: 2 })
    }
}
impl ldpc_toolbox::decoder::factory::DecoderFactory for CliScript {
    fn build_decoder(&self, h: SparseMatrix) -> Box<dyn ldpc_toolbox::decoder::LdpcDecoder> { Box::new(AltDecoder { k: h.num_cols() - h.num_rows(), q: 0 }) }
}

/// child (`vh cliber C20 --in <dir> --out <result>`): the REAL ber subcommand code, in process, with the scripted factory
pub fn cliber_child(a: &Args) {
    use clap::Parser;
    use ldpc_toolbox::cli::Run;
    let dir = a.input.clone().expect("--in");
    let argv: Vec<String> = serde_json::from_str(&std::fs::read_to_string(format!("{dir}/cliber-args.json")).unwrap()).unwrap();
    let res = guarded(|| match ldpc_toolbox::cli::ber::Args::<CliScript>::try_parse_from(argv.iter()) {
        Ok(args) => args.run().map_err(|e| e.to_string()),
        Err(e) => Err(format!("clap: {e}")),
    });
    let v = match res { Ok(Ok(())) => json!({"o": "ok"}), Ok(Err(e)) => json!({"o": "error", "msg": e}), Err(m) => json!({"o": "panic", "msg": m}) };
    std::fs::write(&a.out, v.to_string()).unwrap();
}

pub fn generate(a: &Args) {
    let mut out = Out::create(&a.out);
    let mut rng = Rng::new(a.seed ^ 0xC20);
    let th = is_thorough(a);
    let work = format!("{}/c20-sandbox", std::path::Path::new(&a.out).parent().unwrap().to_str().unwrap());
    let _ = std::fs::remove_dir_all(&work);
    std::fs::create_dir_all(&work).unwrap();
    // library side: digests of every code the generation subcommands can name
    let mut lib = serde_json::Map::new();
    for c in enum_iterator::all::<DvbCode>() { lib.insert(format!("{c:?}"), json!(sha256_hex(c.h().alist().as_bytes()))); }
    let ksz = [(AR4JAInfoSize::K1024, 1024), (AR4JAInfoSize::K4096, 4096), (AR4JAInfoSize::K16384, 16384)];
    for r in enum_iterator::all::<AR4JARate>() { for (k, _) in ksz.iter() {
        // (k = 16384 too, also in the quick tier: the CLI's own size table is only exercised by asking for every size)
        lib.insert(format!("{r:?}_{k:?}"), json!(sha256_hex(AR4JACode::new(r, *k).h().alist().as_bytes())));
    } }
    lib.insert(s("C2"), json!(sha256_hex(C2Code::new().h().alist().as_bytes())));
    let lib = Value::Object(lib);
    // dvbs2: every (rate, frame) combination, valid or not
    let rates = ["1/4", "1/3", "2/5", "1/2", "3/5", "2/3", "3/4", "4/5", "5/6", "8/9", "9/10", "7/8", "1/5", "", "1/2 ", "0.5"];
    for rate in rates { for short in [false, true] {
        out.new_case();
        let mut args = vec![s("dvbs2"), s("--rate"), s(rate)];
        if short { args.push(s("--short")); }
        let r = run_cli(&work, &args, 120);
        let mut ev = base_ev(&args, &r);
        ev["sub"] = json!("dvbs2"); ev["rate"] = json!(rate); ev["short"] = json!(short); ev["girth"] = json!(false);
        ev["out_sha"] = json!(canon_sha(&r.stdout)); ev["lib"] = lib.clone(); ev["text"] = json!("");
        out.ev("Gen", "ok", ev);
    } }
    // ccsds: every (rate, block size) combination
    for rate in ["1/2", "2/3", "4/5", "3/4", "7/8", ""] { for bs in ["1024", "4096", "16384", "2048", "0", "1000", "16348", "4069"] {
        if (bs == "16348" || bs == "4069") && rate != "1/2" && rate != "7/8" { continue; }
        out.new_case();
        let args = vec![s("ccsds"), s("--rate"), s(rate), s("--block-size"), s(bs)];
        let r = run_cli(&work, &args, 300);
        let mut ev = base_ev(&args, &r);
        ev["sub"] = json!("ccsds"); ev["rate"] = json!(rate); ev["bs"] = json!(bs); ev["girth"] = json!(false);
        ev["out_sha"] = json!(canon_sha(&r.stdout)); ev["lib"] = lib.clone(); ev["text"] = json!("");
        out.ev("Gen", "ok", ev);
    } }
    { out.new_case();
      let args = vec![s("ccsds-c2")];
      let r = run_cli(&work, &args, 120);
      let mut ev = base_ev(&args, &r);
      ev["sub"] = json!("ccsds-c2"); ev["girth"] = json!(false); ev["out_sha"] = json!(canon_sha(&r.stdout)); ev["lib"] = lib.clone(); ev["text"] = json!("");
      out.ev("Gen", "ok", ev); }
    // documented girths
    for args in [vec![s("dvbs2"), s("--rate"), s("1/2"), s("--girth")], vec![s("ccsds"), s("--rate"), s("1/2"), s("--block-size"), s("1024"), s("--girth")],
                 vec![s("dvbs2"), s("--rate"), s("1/2"), s("--short"), s("--girth")]] {
        out.new_case();
        let r = run_cli(&work, &args, 600);
        let mut ev = base_ev(&args, &r);
        ev["sub"] = json!(args[0]); ev["girth"] = json!(true); ev["rate"] = json!("1/2"); ev["short"] = json!(args.contains(&s("--short"))); ev["bs"] = json!("1024");
        ev["text"] = json!(String::from_utf8_lossy(&r.stdout).trim().to_string()); ev["out_sha"] = json!(""); ev["lib"] = lib.clone();
        out.ev("Gen", "ok", ev);
    }
    // girth "when asked" for other codes: the printed value against oracles that do not use the library's girth search - the exact
    // 4-cycle test of codes.rs on the matrix printed WITHOUT --girth, and (peg, small) the exact girth computed by TLC (Tanner.tla)
    let girth_runs: Vec<Vec<String>> = if th {
        vec![vec![s("ccsds"), s("--rate"), s("2/3"), s("--block-size"), s("1024")], vec![s("ccsds"), s("--rate"), s("4/5"), s("--block-size"), s("1024")],
             vec![s("ccsds"), s("--rate"), s("2/3"), s("--block-size"), s("4096")], vec![s("ccsds"), s("--rate"), s("4/5"), s("--block-size"), s("4096")],
             vec![s("dvbs2"), s("--rate"), s("1/4"), s("--short")], vec![s("dvbs2"), s("--rate"), s("8/9"), s("--short")]]   // (ccsds-c2 has no --girth option)
    } else {
        vec![vec![s("ccsds"), s("--rate"), s("4/5"), s("--block-size"), s("1024")], vec![s("ccsds"), s("--rate"), s("4/5"), s("--block-size"), s("4096")],
             vec![s("dvbs2"), s("--rate"), s("8/9"), s("--short")]]
    };
    let printed_girth = |text: &str| -> i64 { text.lines().find_map(|l| l.trim().strip_prefix("Code girth = ").map(|x| x.trim().parse::<i64>().unwrap_or(-1))).unwrap_or(-2) };
    for base in girth_runs {
        out.new_case();
        let plain = run_cli(&work, &base, 600);
        let h = std::str::from_utf8(&plain.stdout).ok().and_then(|t| SparseMatrix::from_alist(t).ok());
        let mut args = base.clone(); args.push(s("--girth"));
        let r = run_cli(&work, &args, 900);
        let mut ev = base_ev(&args, &r);
        ev["printed"] = json!(printed_girth(&String::from_utf8_lossy(&r.stdout)));
        ev["parsed"] = json!(h.is_some());
        ev["four_cycle"] = json!(h.as_ref().map(|h| crate::codes::has_four_cycle(h)).unwrap_or(false));
        ev["cyc6"] = json!(h.as_ref().map(|h| crate::codes::six_cycle(h)).unwrap_or_default());
        ev["small"] = json!(false); ev["rows"] = json!([]); ev["nr"] = json!(0); ev["nc"] = json!(0);
        out.ev("Girth", "ok", ev);
    }
    for i in 0..(if th { 40 } else { 12 }) {
        out.new_case();
        let (nr, nc, wc, seed) = (3 + i % 4, 5 + i % 6, 2 + i % 2, rng.next() % 1000);
        let args = vec![s("peg"), nr.to_string(), nc.to_string(), wc.to_string(), seed.to_string(), s("--girth")];
        let r = run_cli(&work, &args, 60);
        let h = std::str::from_utf8(&r.stdout).ok().and_then(|t| SparseMatrix::from_alist(t).ok());
        let mut ev = base_ev(&args, &r);
        let so = r.stderr.clone();
        ev["printed"] = json!(if so.contains("infinity") { -1 } else { printed_girth(&so) });
        ev["parsed"] = json!(h.is_some());
        ev["four_cycle"] = json!(false); ev["cyc6"] = json!([]);
        ev["small"] = json!(true); ev["rows"] = json!(h.as_ref().map(|h| rows_of(h)).unwrap_or_default()); ev["nr"] = json!(nr); ev["nc"] = json!(nc);
        out.ev("Girth", "ok", ev);
    }
    // peg / mackay-neal: stdout must parse to the matrix the library's run(seed) returns
    for i in 0..(if th { 40 } else { 10 }) {
        out.new_case();
        let (nr, nc, wc, seed) = (3 + i % 5, 6 + i % 7, 1 + i % 3, rng.next() % 1000);
        let args = vec![s("peg"), nr.to_string(), nc.to_string(), wc.to_string(), seed.to_string()];
        let r = run_cli(&work, &args, 60);
        let libr = guarded(|| PegConfig { nrows: nr, ncols: nc, wc }.run(seed).ok().map(|h| sha256_hex(h.alist().as_bytes()))).unwrap_or(None);
        let mut ev = base_ev(&args, &r);
        ev["sub"] = json!("peg"); ev["out_sha"] = json!(canon_sha(&r.stdout)); ev["lib_ok"] = json!(libr.is_some()); ev["lib_sha"] = json!(libr.unwrap_or_default());
        ev["seed_line"] = json!(-1); ev["start"] = json!(0); ev["tries"] = json!(0); ev["search"] = json!(false);
        out.ev("Construct", "ok", ev);
    }
    for i in 0..(if th { 60 } else { 16 }) {
        out.new_case();
        let nr = 4 + i % 4; let nc = 8 + 2 * (i % 3); let wc = 2 + i % 2;
        let wr = (nc * wc + nr - 1) / nr + (i % 2);
        let seed = rng.next() % 1000;
        let uniform = i % 2 == 0; let mg = if i % 3 == 0 { Some(6usize) } else { None }; let search = i % 4 == 1;
        let mut args = vec![s("mackay-neal"), nr.to_string(), nc.to_string(), wr.to_string(), wc.to_string(), seed.to_string()];
        if uniform { args.push(s("--uniform")); }
        if let Some(g) = mg { args.push(s("--min-girth")); args.push(g.to_string()); args.push(s("--girth-trials")); args.push(s("20")); }
        let tries = 7u64;
        if search { args.push(s("--search")); args.push(s("--seed-trials")); args.push(tries.to_string()); }
        let r = run_cli(&work, &args, 60);
        let conf = MknConfig { nrows: nr, ncols: nc, wr, wc, backtrack_cols: 0, backtrack_trials: 0, min_girth: mg, girth_trials: if mg.is_some() { 20 } else { 0 }, fill_policy: if uniform { FillPolicy::Uniform } else { FillPolicy::Random } };
        let seed_line: i64 = r.stderr.lines().find_map(|l| l.trim().strip_prefix("seed = ").and_then(|x| x.parse().ok())).unwrap_or(-1);
        let use_seed = if search { seed_line } else { seed as i64 };
        let libr = if use_seed >= 0 { guarded(|| conf.run(use_seed as u64).ok().map(|h| sha256_hex(h.alist().as_bytes()))).unwrap_or(None) } else { None };
        let any_ok = if search { (seed..seed + tries).any(|sd| guarded(|| conf.run(sd).is_ok()).unwrap_or(false)) } else { libr.is_some() };
        let mut ev = base_ev(&args, &r);
        ev["sub"] = json!("mackay-neal"); ev["out_sha"] = json!(canon_sha(&r.stdout)); ev["lib_ok"] = json!(any_ok); ev["lib_sha"] = json!(libr.unwrap_or_default());
        ev["seed_line"] = json!(seed_line); ev["start"] = json!(seed); ev["tries"] = json!(tries); ev["search"] = json!(search);
        out.ev("Construct", "ok", ev);
    }
    // mackay-neal with backtracking (random fill on tight row budgets so that the construction really backtracks): the two
    // backtracking options are given different values
    for i in 0..(if th { 36 } else { 12 }) {
        out.new_case();
        let (nr, nc, wr, wc) = [(8usize, 16usize, 6usize, 3usize), (6, 12, 6, 3), (5, 10, 4, 2), (9, 18, 6, 3)][i % 4];
        let (bc, bt) = [(2usize, 40usize), (1, 10), (3, 7)][i % 3];
        let seed = rng.next() % 1000;
        let args = vec![s("mackay-neal"), nr.to_string(), nc.to_string(), wr.to_string(), wc.to_string(), seed.to_string(),
            s("--backtrack-cols"), bc.to_string(), s("--backtrack-trials"), bt.to_string()];
        let r = run_cli(&work, &args, 60);
        let conf = MknConfig { nrows: nr, ncols: nc, wr, wc, backtrack_cols: bc, backtrack_trials: bt, min_girth: None, girth_trials: 0, fill_policy: FillPolicy::Random };
        let libr = guarded(|| conf.run(seed).ok().map(|h| sha256_hex(h.alist().as_bytes()))).unwrap_or(None);
        // did backtracking matter for this seed? (the same run without it fails or differs)
        let plain = guarded(|| MknConfig { backtrack_cols: 0, backtrack_trials: 0, ..conf.clone() }.run(seed).ok().map(|h| sha256_hex(h.alist().as_bytes()))).unwrap_or(None);
        let mut ev = base_ev(&args, &r);
        ev["sub"] = json!("mackay-neal"); ev["out_sha"] = json!(canon_sha(&r.stdout)); ev["lib_ok"] = json!(libr.is_some()); ev["backtracked"] = json!(plain != libr);
        ev["lib_sha"] = json!(libr.unwrap_or_default());
        ev["seed_line"] = json!(-1); ev["start"] = json!(seed); ev["tries"] = json!(0); ev["search"] = json!(false);
        out.ev("Construct", "ok", ev);
    }
    // systematic
    let mut sys_cases: Vec<(String, Option<(Vec<Vec<usize>>, usize)>, &str)> = vec![];
    for i in 0..(if th { 60 } else { 14 }) {
        let (rows, n) = random_code(&mut rng, i, 4, 8);
        let n = n.max(rows.len());
        sys_cases.push((matrix(&rows, n).alist(), Some((rows, n)), "matrix"));
    }
    sys_cases.push((matrix(&[vec![0, 1], vec![0, 1]], 3).alist(), Some((vec![vec![0, 1], vec![0, 1]], 3)), "deficient"));
    sys_cases.push((matrix(&[vec![0], vec![1]], 2).alist(), Some((vec![vec![0], vec![1]], 2)), "square"));
    sys_cases.push((s("2 2\n1 1\n1 1\n1 1\n3\n1\n1\n2\n"), None, "malformed"));
    sys_cases.push((s("x\n"), None, "malformed"));
    // wide matrices with ONE row index of the column lists replaced by a value that no row has: just above the number of rows, between
    // the number of rows and the number of columns (the header order "ncols nrows" invites the confusion), the number of columns, beyond both (zero is legal padding in alist and is not used)
    for (j, (nr, nc)) in [(4usize, 12usize), (3, 7), (2, 9), (5, 6)].into_iter().enumerate() {
        let rows: Vec<Vec<usize>> = (0..nr).map(|r| (0..nc).filter(|c| c % nr == r || (c + 1) % nc == r).collect()).collect();
        let text = matrix(&rows, nc).alist();
        let lines: Vec<&str> = text.lines().collect();
        for (t, bad) in [nr + 1, (nr + nc + 1) / 2, nc, nc + 1, 4096].into_iter().enumerate() {
            if !(th || (t + j) % 2 == 0) { continue; }
            let target = 4 + (t * 5 + j) % nc;               // one of the nc column lists (lines 4 .. 4+nc)
            let mut ls: Vec<String> = lines.iter().map(|l| l.to_string()).collect();
            let mut toks: Vec<String> = ls[target].split_whitespace().map(|x| x.to_string()).collect();
            if toks.is_empty() { continue; }
            let last = toks.len() - 1;
            toks[last] = bad.to_string();
            ls[target] = toks.join(" ");
            sys_cases.push((ls.join("\n") + "\n", None, "malformed"));
        }
    }
    for (i, (text, m, kind)) in sys_cases.iter().enumerate() {
        out.new_case();
        let f = format!("sys{i}.alist");
        std::fs::write(format!("{work}/{f}"), text).unwrap();
        let args = vec![s("systematic"), f];
        let r = run_cli(&work, &args, 60);
        let mut ev = base_ev(&args, &r);
        let parsed = std::str::from_utf8(&r.stdout).ok().and_then(|t| SparseMatrix::from_alist(t).ok());
        ev["kind"] = json!(kind);
        ev["parsed"] = json!(parsed.is_some());
        ev["res"] = json!(parsed.as_ref().map(|h| rows_of(h)).unwrap_or_default());
        ev["res_n"] = json!(parsed.as_ref().map(|h| h.num_cols()).unwrap_or(0));
        ev["rows"] = json!(m.as_ref().map(|x| x.0.clone()).unwrap_or_default());
        ev["n"] = json!(m.as_ref().map(|x| x.1).unwrap_or(0));
        out.ev("Sys", "ok", ev);
    }
    { out.new_case();
      let args = vec![s("systematic"), s("missing-file.alist")];
      let r = run_cli(&work, &args, 60);
      let mut ev = base_ev(&args, &r);
      ev["kind"] = json!("missing"); ev["parsed"] = json!(false); ev["res"] = json!([]); ev["res_n"] = json!(0); ev["rows"] = json!([]); ev["n"] = json!(0);
      out.ev("Sys", "ok", ev); }
    // encode
    for i in 0..(if th { 72 } else { 36 }) {
        out.new_case();
        let ncw = [12usize, 24, 18][i % 3];
        let r0 = ncw / 3;
        let k = ncw - r0;
        let rows = systematic_code(ncw, r0, 300 + i as u64);
        let h = matrix(&rows, ncw);
        std::fs::write(format!("{work}/enc{i}.alist"), h.alist()).unwrap();
        let words = [0usize, 1, 3, 2][i % 4];
        let partial = if i % 3 == 1 { k / 2 } else { 0 };
        let input: Vec<u8> = (0..words * k + partial).map(|_| (rng.next() & 1) as u8).collect();
        std::fs::write(format!("{work}/enc{i}.in"), &input).unwrap();
        let mut pat = ["", "1,1,0", "1,1,1,0,1,1", "1,0,1,1,1"][(i / 2) % 4];
        // rates that are not binary fractions, where N_cw / rate falls just below the integer (18 / (9/7) = 13.999...): the output length
        // is a count of kept positions, not a rounded quotient
        if ncw == 18 && i % 6 == 2 { pat = ["1,1,1,0,1,1,0,1,1", "1,1,1,0,1,1,1,1,1,0,1,1,1,0,1,1,1,0"][(i / 12) % 2]; }
        let mut args = vec![s("encode"), format!("enc{i}.alist"), format!("enc{i}.in"), format!("enc{i}.out")];
        if !pat.is_empty() { args.push(s("--puncturing")); args.push(s(pat)); }
        // malformed patterns (must give a clean failure): the empty string, a trailing comma, a blank, a letter
        let bad = if i % 6 == 5 { Some(["", "1,1,0,", " ", "1,x", "1,,0", "2"][(i / 6) % 6]) } else { None };
        if let Some(b) = bad { if pat.is_empty() { args.push(s("--puncturing")); } else { args.pop(); } args.push(s(b)); }
        let _ = std::fs::remove_file(format!("{work}/enc{i}.out"));
        let r = run_cli(&work, &args, 60);
        let outb = std::fs::read(format!("{work}/enc{i}.out")).unwrap_or_default();
        // library reference
        let patv: Option<Vec<bool>> = if pat.is_empty() { None } else { Some(pat.split(',').map(|t| t == "1").collect()) };
        let fits = bad.is_none() && patv.as_ref().map(|p| ncw % p.len() == 0).unwrap_or(true);
        let mut reference: Vec<u8> = vec![];
        if fits {
            let enc = Encoder::from_h(&h).unwrap();
            for w in 0..words {
                let cw = enc.encode(&Array1::from_iter(input[w * k..(w + 1) * k].iter().map(|&b| if b == 1 { GF2::one() } else { GF2::zero() })));
                let cw = match &patv { Some(p) => Puncturer::new(p).puncture(&cw).unwrap(), None => cw };
                reference.extend(cw.iter().map(|x| if x.is_one() { 1u8 } else { 0u8 }));
            }
        }
        let mut ev = base_ev(&args, &r);
        ev["fits"] = json!(fits); ev["words"] = json!(words); ev["out"] = json!(outb); ev["ref"] = json!(reference); ev["pat"] = json!(bad.unwrap_or(pat)); ev["malformed"] = json!(bad.is_some());
        // everything TLC needs to compute the expected file by itself (EncodeStream / Encoder / Chain)
        ev["rows"] = json!(rows); ev["n"] = json!(ncw); ev["input"] = json!(input);
        ev["patb"] = json!(patv.clone().unwrap_or(vec![true]).iter().map(|&b| b as u8).collect::<Vec<_>>());
        out.ev("Encode", "ok", ev);
    }
    // ber: one result line per requested Eb/N0
    for i in 0..(if th { 18 } else { 6 }) {
        out.new_case();
        // Eb/N0 grids in centi-dB (min, max, step), all exactly representable quotients: on the grid, and off it by less / exactly / more than half a step
        let (min_c, max_c, step_c) = [(-400i64, -400i64, 100i64), (-400, -275, 50), (-400, -350, 100), (-400, -325, 50), (-450, -300, 100), (-400, -305, 25)][i % 6];
        let (ncw, r0) = [(6usize, 3usize), (12, 6), (12, 6), (24, 12)][i % 4];
        let rows = systematic_code(ncw, r0, 500 + i as u64);
        std::fs::write(format!("{work}/ber{i}.alist"), matrix(&rows, ncw).alist()).unwrap();
        let npoints = (max_c - min_c) / step_c + 1;
        let target = 5 + i as u64;
        let bch = if i % 2 == 1 { 1u64 } else { 0 };
        let mut args = vec![s("ber"), format!("ber{i}.alist"), format!("--min-ebn0={}", min_c as f64 / 100.0), format!("--max-ebn0={}", max_c as f64 / 100.0), format!("--step-ebn0={}", step_c as f64 / 100.0),
            s("--frame-errors"), target.to_string(), s("--max-iter"), s("5"), s("--output-file"), format!("ber{i}.txt")];
        if i % 4 == 2 { args.push(s("--modulation")); args.push(s("PSK8")); }
        // puncturing / interleaving given on the command line: the printed details must show the sizes after puncturing
        let cli_pat: Option<&str> = if i % 4 == 3 { Some("1,1,0,1") } else if i % 4 == 1 { Some("1,1,1,1,0,1") } else { None };
        if let Some(p) = cli_pat { args.push(s("--puncturing")); args.push(s(p)); }
        if i % 4 == 3 { args.push(s("--interleaving=-3")); }
        if bch > 0 { args.push(s("--bch-max-errors")); args.push(bch.to_string()); args.push(s("--output-file-ldpc")); args.push(format!("ber{i}-ldpc.txt")); }
        let r = run_cli(&work, &args, 120);
        let parse = |path: String| -> Vec<Value> { parse_ber_file(&path) };
        let mut ev = base_ev(&args, &r);
        ev["npoints"] = json!(npoints); ev["min_c"] = json!(min_c); ev["max_c"] = json!(max_c); ev["step_c"] = json!(step_c); ev["target"] = json!(target); ev["bch"] = json!(bch); ev["k"] = json!(ncw - r0);
        // the parameter block printed on stdout
        let so = String::from_utf8_lossy(&r.stdout).to_string();
        let field = |key: &str| -> f64 { so.lines().find_map(|l| l.trim().strip_prefix(key).and_then(|x| x.trim().parse::<f64>().ok())).unwrap_or(-1.0) };
        ev["ncw"] = json!(ncw);
        ev["pat"] = json!(cli_pat.unwrap_or("1").split(',').map(|t| (t == "1") as u8).collect::<Vec<_>>());
        ev["d_k"] = json!(field("- Information bits (k):") as i64);
        ev["d_ncw"] = json!(field("- Codeword size (N_cw):") as i64);
        ev["d_n"] = json!(field("- Frame size (N):") as i64);
        ev["d_rate_m"] = json!((field("- Code rate:") * 1000.0).round() as i64);
        ev["lines"] = json!(parse(format!("{work}/ber{i}.txt")));
        ev["lines_ldpc"] = json!(if bch > 0 { parse(format!("{work}/ber{i}-ldpc.txt")) } else { vec![] });
        out.ev("Ber", "ok", ev);
    }
    // ber with an outer code and BOTH output files, with scripted frame outcomes (the real subcommand code, generic over the factory)
    for i in 0..(if th { 8 } else { 3 }) {
        out.new_case();
        let (ncw, r0) = [(12usize, 4usize), (24, 12), (18, 6)][i % 3];
        let rows = systematic_code(ncw, r0, 900 + i as u64);
        std::fs::write(format!("{work}/berin{i}.alist"), matrix(&rows, ncw).alist()).unwrap();
        let npoints = 2 + i % 2;
        let target = 4 + i as u64;
        let argv: Vec<String> = vec![s("ber"), format!("{work}/berin{i}.alist"), s("--min-ebn0=40"), format!("--max-ebn0={}", 40 + npoints - 1), s("--step-ebn0=1"),
            s("--frame-errors"), target.to_string(), s("--max-iter"), s("5"), s("--decoder"), s("Alt13"), s("--bch-max-errors"), s("2"),
            s("--output-file"), format!("{work}/berin{i}.txt"), s("--output-file-ldpc"), format!("{work}/berin{i}-ldpc.txt")];
        std::fs::write(format!("{work}/cliber-args.json"), serde_json::to_string(&argv).unwrap()).unwrap();
        let resp = format!("{work}/cliber-{i}.out");
        let exe = std::env::current_exe().unwrap();
        let st = std::process::Command::new("timeout").arg("120").arg(exe).args(["cliber", "C20", "--in", &work, "--out", &resp])
            .stdout(std::process::Stdio::null()).stderr(std::process::Stdio::null()).status();
        let res: Value = std::fs::read_to_string(&resp).ok().and_then(|t| serde_json::from_str(&t).ok()).unwrap_or(json!({"o": "abort", "msg": format!("{st:?}")}));
        out.ev("BerIn", res["o"].as_str().unwrap_or("abort"), json!({"argv": argv, "npoints": npoints, "target": target, "t": 2, "k": ncw - r0, "msg": res["msg"],
            "lines": parse_ber_file(&format!("{work}/berin{i}.txt")), "lines_ldpc": parse_ber_file(&format!("{work}/berin{i}-ldpc.txt"))}));
    }
    if std::env::var("VH_KEEP").is_err() { let _ = std::fs::remove_dir_all(&work); }
    out.finish();
}
