//! C13: the real BER engine under controlled worker counts, scripted frame outcomes, randomised delays and
//! injected faults. Every run happens in a CHILD process with a watchdog: a hang or abort is data.
use crate::bersup::*;
use crate::decoders::matrix;
use crate::util::*;
use ldpc_toolbox::simulation::ber::{Report, Reporter, Statistics};
use ldpc_toolbox::simulation::factory::{BerTestBuilder, Modulation as ModSel};
use serde_json::{Value, json};
use std::sync::Arc;
use std::time::Duration;

fn stats_json(s: &Statistics, k: usize) -> Value {
    let u = |x: f64| if x.is_finite() { (x * 1e6).round() as i64 } else { -1 };
    let mut v = json!({"frames": s.num_frames, "iters": s.total_iterations, "fdec": s.false_decodes,
        "ferr": s.ldpc.frame_errors, "berr": s.ldpc.bit_errors, "citers": s.ldpc.correct_iterations,
        "ber_u": u(s.ldpc.ber), "fer_u": u(s.ldpc.fer), "avg_u": u(s.average_iterations), "k": k, "has_bch": s.bch.is_some(),
        "finished": false, "bferr": 0, "bberr": 0, "bciters": 0, "bber_u": 0, "bfer_u": 0, "ebn0_m": (s.ebn0_db * 1000.0).round() as i64});
    if let Some(b) = &s.bch {
        v["bferr"] = json!(b.frame_errors); v["bberr"] = json!(b.bit_errors); v["bciters"] = json!(b.correct_iterations);
        v["bber_u"] = json!(u(b.ber)); v["bfer_u"] = json!(u(b.fer));
    }
    v
}

/// deterministic outcome script: (seed, worker, frame) -> action; iteration counts differ per worker
fn script_for(seed: u64, fault: String, w_count: usize) -> Script {
    Arc::new(move |id, seq| {
        let w = id % w_count.max(1);
        let mut x = seed ^ (id as u64).wrapping_mul(0x9E3779B97F4A7C15) ^ seq.wrapping_mul(0xD1B54A32D192ED03);
        x ^= x >> 29; x = x.wrapping_mul(0xBF58476D1CE4E5B9); x ^= x >> 32;
        if fault == "decoder_panic" && w % 2 == 1 && seq == 1 + (w as u64 % 3) { return Act::Panic; }
        let iters = 1 + w % 4 + (x % 2) as usize * 4;
        match x % 20 {
            0..=10 => Act::Good { iters },
            // the decoder gives up although every systematic bit is right (residual errors in the parity part): not a frame error
            11 => Act::Bad { flips: 0, ok: false, iters: 9 + w % 3 },
            12..=16 => Act::Bad { flips: 1 + (x >> 8) as usize % 2, ok: false, iters: 10 + w % 4 },
            _ => Act::Bad { flips: 3 + (x >> 8) as usize % 2, ok: true, iters: 6 + w % 3 },
        }
    })
}

/// child: one BER run described by the JSON config; prints one JSON line with everything observed
pub fn child(a: &Args) {
    let cfg: Value = serde_json::from_str(&std::fs::read_to_string(a.input.as_ref().expect("--in")).unwrap()).unwrap();
    let w = cfg["W"].as_u64().unwrap() as usize;
    set_affinity(w);
    let ncw = cfg["ncw"].as_u64().unwrap() as usize;
    let r = cfg["r"].as_u64().unwrap() as usize;
    let k = ncw - r;
    let rows = systematic_code(ncw, r, cfg["salt"].as_u64().unwrap());
    let pat: Option<Vec<bool>> = cfg["pat"].as_array().map(|p| p.iter().map(|b| b.as_u64().unwrap() == 1).collect());
    let il: Option<isize> = cfg["il"].as_i64().map(|x| x as isize);
    let psk8 = cfg["psk8"].as_bool().unwrap();
    let target = cfg["target"].as_u64().unwrap();
    let bch = cfg["bch"].as_u64().unwrap();
    let epochs = cfg["epochs"].as_u64().unwrap() as usize;
    let fault = cfg["fault"].as_str().unwrap().to_string();
    let sh = shared(k, 100_000_000, cfg["delay_us"].as_u64().unwrap(), false);
    sh.build_delay_ms.store(cfg["build_delay_ms"].as_u64().unwrap_or(0), std::sync::atomic::Ordering::SeqCst);
    let script = script_for(cfg["seed"].as_u64().unwrap(), fault, w);
    let (tx, rx) = std::sync::mpsc::channel::<Report>();
    let ebn0s: Vec<f32> = (0..epochs).map(|e| 35.0 + e as f32).collect();
    let sh2 = sh.clone();
    let res = guarded(move || {
        let b = BerTestBuilder { h: matrix(&rows, ncw), decoder_implementation: ScriptedFactory { shared: sh2, script },
            modulation: if psk8 { ModSel::Psk8 } else { ModSel::Bpsk }, puncturing_pattern: pat.as_deref(), interleaving_columns: il,
            max_frame_errors: target, max_iterations: 50, ebn0s_db: &ebn0s, reporter: Some(Reporter { tx, interval: Duration::ZERO }), bch_max_errors: bch };
        match b.build() {
            Err(e) => Err(format!("build: {e}")),
            Ok(t) => t.run().map_err(|e| e.to_string()),
        }
    });
    // decoders alive at the moment run() returned
    let built = sh.built.load(std::sync::atomic::Ordering::SeqCst);
    let dropped = sh.dropped.load(std::sync::atomic::Ordering::SeqCst);
    let mut reports = vec![];
    while let Ok(rep) = rx.try_recv() {
        match rep { Report::Statistics(s) => reports.push(stats_json(&s, k)), Report::Finished => reports.push(json!({"frames": 0, "iters": 0, "fdec": 0, "ferr": 0, "berr": 0, "citers": 0, "ber_u": 0, "fer_u": 0, "avg_u": 0, "k": k,
            "has_bch": false, "finished": true, "bferr": 0, "bberr": 0, "bciters": 0, "bber_u": 0, "bfer_u": 0, "ebn0_m": 0})) }
    }
    // per decoder (= per worker and epoch, in build order) outcome sequences
    let frames = sh.frames.lock().unwrap().clone();
    let mut per: Vec<Vec<Value>> = vec![vec![]; built];
    for f in frames.iter() {
        if f.act == "panic" { continue; }
        if f.worker < built { per[f.worker].push(json!({"be": f.flips, "ok": f.ok, "it": f.iters})); }
    }
    let (result, stats, msg) = match res {
        Ok(Ok(st)) => ("ok", st.iter().map(|s| stats_json(s, k)).collect::<Vec<_>>(), String::new()),
        Ok(Err(e)) => ("error", vec![], e),
        Err(m) => ("panic", vec![], m),
    };
    // the collector consumes a few dozen frames per run; free-running workers may have produced thousands more
    for w in per.iter_mut() { w.truncate(400); }
    // how many decoders really panicked inside decode() (a worker may be told to stop before it ever decodes)
    let panics = frames.iter().filter(|f| f.act == "panic").count();
    let line = json!({"result": result, "msg": msg, "stats": stats, "reports": reports, "workers": per, "built": built, "dropped": dropped, "k": k, "panics": panics}).to_string();
    std::fs::write(&a.out, line).expect("write child result");
}

fn run_child(cfg: &Value, work: &str, idx: usize) -> Value {
    let cfgp = format!("{work}/c13-{idx}.json");
    std::fs::write(&cfgp, cfg.to_string()).unwrap();
    let exe = std::env::current_exe().unwrap();
    let resp = format!("{work}/c13-{idx}.out.json");
    let _ = std::fs::remove_file(&resp);
    let mut ch = std::process::Command::new(exe).args(["berchild", "C13", "--in", &cfgp, "--out", &resp])
        .stdout(std::process::Stdio::null()).stderr(std::process::Stdio::null()).spawn().expect("spawn child");
    let t0 = std::time::Instant::now();
    let limit = Duration::from_secs(20);
    loop {
        match ch.try_wait().unwrap() {
            Some(st) => {
                let s = std::fs::read_to_string(&resp).unwrap_or_default();
                let _ = std::fs::remove_file(&cfgp);
                let _ = std::fs::remove_file(&resp);
                return match serde_json::from_str::<Value>(&s).ok() {
                    Some(v) => v,
                    None => json!({"result": "abort", "msg": format!("child exited with {st}"), "stats": [], "reports": [], "workers": [], "built": 0, "dropped": 0, "k": 0, "panics": 0}),
                };
            }
            None => {
                if t0.elapsed() > limit {
                    let _ = ch.kill();
                    let _ = ch.wait();
                    let _ = std::fs::remove_file(&cfgp);
                    return json!({"result": "hang", "msg": "no return within 20 s", "stats": [], "reports": [], "workers": [], "built": 0, "dropped": 0, "k": 0, "panics": 0});
                }
                std::thread::sleep(Duration::from_millis(5));
            }
        }
    }
}

pub fn generate(a: &Args) {
    let mut out = Out::create(&a.out);
    let mut rng = Rng::new(a.seed ^ 0xC13);
    let th = is_thorough(a);
    let work = std::path::Path::new(&a.out).parent().unwrap().to_str().unwrap().to_string();
    let mut cfgs: Vec<Value> = vec![];
    let ws: Vec<usize> = if th { vec![1, 2, 3, 5, 8, 16] } else { vec![1, 2, 3, 8] };
    let reps = if th { 40 } else { 3 };
    for &w in &ws {
        for rep in 0..reps {
            let bch = if rep % 3 == 1 { 2 } else { 0 };
            cfgs.push(json!({"W": w, "ncw": 24, "r": 12, "salt": rng.next() % 1000, "pat": Value::Null, "il": Value::Null, "psk8": rep % 2 == 1,
                "target": 2 + rng.below(6), "bch": bch, "epochs": 1 + rep % 2, "fault": "none", "delay_us": (rep % 3) * 100, "seed": rng.next() % 100000}));
        }
    }
    // slow decoder construction (as for large codes): the first workers run far ahead of the collector before it starts
    // receiving; small targets end the point while a large backlog is still queued
    for &w in &[2usize, 3, 8] {
        for rep in 0..(if th { 6 } else { 2 }) {
            cfgs.push(json!({"W": w, "ncw": 24, "r": 12, "salt": 7, "pat": Value::Null, "il": Value::Null, "psk8": false, "target": 1 + rep % 2, "bch": 0, "epochs": 1 + rep % 2,
                "fault": "none", "delay_us": 0, "seed": 4000 + rep, "build_delay_ms": 25}));
        }
    }
    // fault injection
    for &w in &[1usize, 3, 8] {
        // puncturer misfit: pattern length 5 does not divide 24 -> the stage returns an error
        cfgs.push(json!({"W": w, "ncw": 24, "r": 12, "salt": 1, "pat": [1, 1, 0, 1, 1], "il": Value::Null, "psk8": false, "target": 3, "bch": 0, "epochs": 1, "fault": "puncturer_misfit", "delay_us": 0, "seed": 1}));
        // interleaver misfit: 24 bits, 7 columns -> the stage panics in every worker
        cfgs.push(json!({"W": w, "ncw": 24, "r": 12, "salt": 1, "pat": Value::Null, "il": 7, "psk8": false, "target": 3, "bch": 0, "epochs": 1, "fault": "interleaver_misfit", "delay_us": 0, "seed": 1}));
        // 8PSK misfit: 20 bits per frame is not a multiple of 3
        cfgs.push(json!({"W": w, "ncw": 20, "r": 10, "salt": 1, "pat": Value::Null, "il": Value::Null, "psk8": true, "target": 3, "bch": 0, "epochs": 1, "fault": "psk8_misfit", "delay_us": 0, "seed": 1}));
        if w >= 2 {
            cfgs.push(json!({"W": w, "ncw": 24, "r": 12, "salt": 3, "pat": Value::Null, "il": Value::Null, "psk8": false, "target": 4, "bch": 0, "epochs": 1, "fault": "decoder_panic", "delay_us": 50, "seed": 77}));
        }
    }
    for (idx, cfg) in cfgs.iter().enumerate() {
        out.new_case();
        let res = run_child(cfg, &work, idx);
        let mut ev = res.clone();
        ev["cfg"] = cfg.clone();
        let o = res["result"].as_str().unwrap_or("abort").to_string();
        out.ev("BerRun", if o == "ok" || o == "error" { "ok" } else { o.as_str() }, ev);
    }
    out.finish();
}
