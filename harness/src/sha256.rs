//! Minimal SHA-256 (FIPS 180-4) for the reference digests of C06/C07; checked against the standard test vector in main().
const K: [u32; 64] = [
    0x428a2f98, 0x71374491, 0xb5c0fbcf, 0xe9b5dba5, 0x3956c25b, 0x59f111f1, 0x923f82a4, 0xab1c5ed5, 0xd807aa98, 0x12835b01, 0x243185be, 0x550c7dc3, 0x72be5d74, 0x80deb1fe,
    0x9bdc06a7, 0xc19bf174, 0xe49b69c1, 0xefbe4786, 0x0fc19dc6, 0x240ca1cc, 0x2de92c6f, 0x4a7484aa, 0x5cb0a9dc, 0x76f988da, 0x983e5152, 0xa831c66d, 0xb00327c8, 0xbf597fc7,
    0xc6e00bf3, 0xd5a79147, 0x06ca6351, 0x14292967, 0x27b70a85, 0x2e1b2138, 0x4d2c6dfc, 0x53380d13, 0x650a7354, 0x766a0abb, 0x81c2c92e, 0x92722c85, 0xa2bfe8a1, 0xa81a664b,
    0xc24b8b70, 0xc76c51a3, 0xd192e819, 0xd6990624, 0xf40e3585, 0x106aa070, 0x19a4c116, 0x1e376c08, 0x2748774c, 0x34b0bcb5, 0x391c0cb3, 0x4ed8aa4a, 0x5b9cca4f, 0x682e6ff3,
    0x748f82ee, 0x78a5636f, 0x84c87814, 0x8cc70208, 0x90befffa, 0xa4506ceb, 0xbef9a3f7, 0xc67178f2,
];
pub fn sha256_hex(data: &[u8]) -> String {
    let mut h: [u32; 8] = [0x6a09e667, 0xbb67ae85, 0x3c6ef372, 0xa54ff53a, 0x510e527f, 0x9b05688c, 0x1f83d9ab, 0x5be0cd19];
    let mut msg = data.to_vec();
    let bitlen = (data.len() as u64) * 8;
    msg.push(0x80);
    while msg.len() % 64 != 56 { msg.push(0); }
    msg.extend_from_slice(&bitlen.to_be_bytes());
    for chunk in msg.chunks(64) {
        let mut w = [0u32; 64];
        for i in 0..16 { w[i] = u32::from_be_bytes([chunk[4 * i], chunk[4 * i + 1], chunk[4 * i + 2], chunk[4 * i + 3]]); }
        for i in 16..64 {
            let s0 = w[i - 15].rotate_right(7) ^ w[i - 15].rotate_right(18) ^ (w[i - 15] >> 3);
            let s1 = w[i - 2].rotate_right(17) ^ w[i - 2].rotate_right(19) ^ (w[i - 2] >> 10);
            w[i] = w[i - 16].wrapping_add(s0).wrapping_add(w[i - 7]).wrapping_add(s1);
        }
        let (mut a, mut b, mut c, mut d, mut e, mut f, mut g, mut hh) = (h[0], h[1], h[2], h[3], h[4], h[5], h[6], h[7]);
        for i in 0..64 {
            let s1 = e.rotate_right(6) ^ e.rotate_right(11) ^ e.rotate_right(25);
            let ch = (e & f) ^ ((!e) & g);
            let t1 = hh.wrapping_add(s1).wrapping_add(ch).wrapping_add(K[i]).wrapping_add(w[i]);
            let s0 = a.rotate_right(2) ^ a.rotate_right(13) ^ a.rotate_right(22);
            let maj = (a & b) ^ (a & c) ^ (b & c);
            let t2 = s0.wrapping_add(maj);
            hh = g; g = f; f = e; e = d.wrapping_add(t1); d = c; c = b; b = a; a = t1.wrapping_add(t2);
        }
        for (x, y) in h.iter_mut().zip([a, b, c, d, e, f, g, hh]) { *x = x.wrapping_add(y); }
    }
    h.iter().map(|x| format!("{x:08x}")).collect()
}
