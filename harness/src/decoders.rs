//! Shared helpers for the decoder properties (C01, C03, C10, C18): names, builders, graphs, LLR classes.
use crate::util::*;
use ldpc_toolbox::decoder::arithmetic::*;
use ldpc_toolbox::decoder::factory::{DecoderFactory, DecoderImplementation};
use ldpc_toolbox::decoder::{DecoderOutput, LdpcDecoder, flooding, horizontal_layered};
use ldpc_toolbox::sparse::SparseMatrix;
use serde_json::{Value, json};

/// The 36 documented implementation names (typed from the documentation, not read from the enum).
pub const NAMES: [&str; 36] = [
    "Phif64", "Phif32", "Tanhf64", "Tanhf32", "Minstarapproxf64", "Minstarapproxf32",
    "Minstarapproxi8", "Minstarapproxi8Jones", "Minstarapproxi8PartialHardLimit", "Minstarapproxi8JonesPartialHardLimit",
    "Minstarapproxi8Deg1Clip", "Minstarapproxi8JonesDeg1Clip", "Minstarapproxi8PartialHardLimitDeg1Clip",
    "Minstarapproxi8JonesPartialHardLimitDeg1Clip",
    "Aminstarf64", "Aminstarf32",
    "Aminstari8", "Aminstari8Jones", "Aminstari8PartialHardLimit", "Aminstari8JonesPartialHardLimit",
    "Aminstari8Deg1Clip", "Aminstari8JonesDeg1Clip", "Aminstari8PartialHardLimitDeg1Clip",
    "Aminstari8JonesPartialHardLimitDeg1Clip",
    "HLPhif64", "HLPhif32", "HLTanhf64", "HLTanhf32", "HLMinstarapproxf64", "HLMinstarapproxf32",
    "HLMinstarapproxi8", "HLMinstarapproxi8PartialHardLimit",
    "HLAminstarf64", "HLAminstarf32", "HLAminstari8", "HLAminstari8PartialHardLimit",
];

/// The 24 arithmetic type names.
pub const ARITHS: [&str; 24] = [
    "Phif64", "Phif32", "Tanhf64", "Tanhf32", "Minstarapproxf64", "Minstarapproxf32",
    "Minstarapproxi8", "Minstarapproxi8Jones", "Minstarapproxi8PartialHardLimit", "Minstarapproxi8JonesPartialHardLimit",
    "Minstarapproxi8Deg1Clip", "Minstarapproxi8JonesDeg1Clip", "Minstarapproxi8PartialHardLimitDeg1Clip",
    "Minstarapproxi8JonesPartialHardLimitDeg1Clip",
    "Aminstarf64", "Aminstarf32",
    "Aminstari8", "Aminstari8Jones", "Aminstari8PartialHardLimit", "Aminstari8JonesPartialHardLimit",
    "Aminstari8Deg1Clip", "Aminstari8JonesDeg1Clip", "Aminstari8PartialHardLimitDeg1Clip",
    "Aminstari8JonesPartialHardLimitDeg1Clip",
];

pub fn build(name: &str, h: SparseMatrix) -> Option<Box<dyn LdpcDecoder>> {
    name.parse::<DecoderImplementation>().ok().map(|d| d.build_decoder(h))
}

macro_rules! direct_table {
    ($arith:expr, $layered:expr, $h:expr; $($name:literal => $ty:ty),+ $(,)?) => {
        match $arith {
            $( $name => Some(if $layered {
                    Box::new(horizontal_layered::Decoder::new($h, <$ty>::new())) as Box<dyn LdpcDecoder>
                } else {
                    Box::new(flooding::Decoder::new($h, <$ty>::new())) as Box<dyn LdpcDecoder>
                }), )+
            _ => None,
        }
    };
}

/// The generic decoder constructed directly with the named arithmetic type and schedule.
pub fn direct(arith: &str, layered: bool, h: SparseMatrix) -> Option<Box<dyn LdpcDecoder>> {
    direct_table!(arith, layered, h;
        "Phif64" => Phif64, "Phif32" => Phif32, "Tanhf64" => Tanhf64, "Tanhf32" => Tanhf32,
        "Minstarapproxf64" => Minstarapproxf64, "Minstarapproxf32" => Minstarapproxf32,
        "Minstarapproxi8" => Minstarapproxi8, "Minstarapproxi8Jones" => Minstarapproxi8Jones,
        "Minstarapproxi8PartialHardLimit" => Minstarapproxi8PartialHardLimit,
        "Minstarapproxi8JonesPartialHardLimit" => Minstarapproxi8JonesPartialHardLimit,
        "Minstarapproxi8Deg1Clip" => Minstarapproxi8Deg1Clip, "Minstarapproxi8JonesDeg1Clip" => Minstarapproxi8JonesDeg1Clip,
        "Minstarapproxi8PartialHardLimitDeg1Clip" => Minstarapproxi8PartialHardLimitDeg1Clip,
        "Minstarapproxi8JonesPartialHardLimitDeg1Clip" => Minstarapproxi8JonesPartialHardLimitDeg1Clip,
        "Aminstarf64" => Aminstarf64, "Aminstarf32" => Aminstarf32,
        "Aminstari8" => Aminstari8, "Aminstari8Jones" => Aminstari8Jones,
        "Aminstari8PartialHardLimit" => Aminstari8PartialHardLimit,
        "Aminstari8JonesPartialHardLimit" => Aminstari8JonesPartialHardLimit,
        "Aminstari8Deg1Clip" => Aminstari8Deg1Clip, "Aminstari8JonesDeg1Clip" => Aminstari8JonesDeg1Clip,
        "Aminstari8PartialHardLimitDeg1Clip" => Aminstari8PartialHardLimitDeg1Clip,
        "Aminstari8JonesPartialHardLimitDeg1Clip" => Aminstari8JonesPartialHardLimitDeg1Clip,
    )
}

pub fn result_json(r: &Result<DecoderOutput, DecoderOutput>) -> Value {
    match r {
        Ok(o) => json!({"verdict": "ok", "word": o.codeword, "iters": o.iterations}),
        Err(o) => json!({"verdict": "err", "word": o.codeword, "iters": o.iterations}),
    }
}

pub fn matrix(rows: &[Vec<usize>], n: usize) -> SparseMatrix {
    crate::c02::sparse_from_rows(rows, n)
}

/// Random parity-check matrix with every row weight >= 2; classes: regular-ish, irregular with degree-1 and
/// degree-0 variables, duplicate rows, 4-cycles, disconnected parts.
pub fn random_code(rng: &mut Rng, idx: usize, max_r: usize, max_n: usize) -> (Vec<Vec<usize>>, usize) {
    let r = 1 + rng.below(max_r);
    let n = (r + 1 + rng.below(max_n - 1)).min(max_n).max(2);
    let mut rows: Vec<Vec<usize>> = vec![];
    for j in 0..r {
        let w = (2 + rng.below(4)).min(n);
        let mut cols: Vec<usize> = (0..n).collect();
        rng.shuffle(&mut cols);
        let mut row: Vec<usize> = cols[..w].to_vec();
        match idx % 5 {
            1 if j > 0 && rng.coin(1, 3) => row = rows[j - 1].clone(), // duplicate row
            2 if j > 0 => {
                // share two variables with the previous row: 4-cycle
                let p: Vec<usize> = rows[j - 1].iter().copied().take(2).collect();
                for x in p {
                    if !row.contains(&x) {
                        row.push(x);
                    }
                }
            }
            3 => {
                // disconnected parts: rows use only their half of the variables
                let half = n / 2;
                if half >= 2 && n - half >= 2 {
                    let (lo, hi) = if j % 2 == 0 { (0, half) } else { (half, n) };
                    let mut c: Vec<usize> = (lo..hi).collect();
                    rng.shuffle(&mut c);
                    row = c[..2.min(c.len()).max(2.min(hi - lo))].to_vec();
                }
            }
            _ => {}
        }
        row.sort_unstable();
        row.dedup();
        rows.push(row);
    }
    (rows, n)
}

pub fn syndrome_zero(rows: &[Vec<usize>], word: &[u8]) -> bool {
    rows.iter().all(|r| r.iter().map(|&c| word[c] as usize).sum::<usize>() % 2 == 0)
}

/// A codeword of the code by brute force over the kernel is too expensive in general; instead produce
/// sign patterns: random, near-codeword (all-zero / found-by-search), already valid.
pub fn llr_vector(rng: &mut Rng, n: usize, class: usize) -> Vec<f64> {
    let tiny = [5e-324, -5e-324, 1e-40, -1e-40, 1e-46, -1e-46, 0.0, -0.0];
    let huge = [1e30, -1e30, 1e29, -3e29];
    let mut v: Vec<f64> = (0..n).map(|_| rng.gauss() * 3.0 + 1.5).collect();
    match class % 13 {
        0 => {}
        1 => v.iter_mut().for_each(|x| *x = *rng.pick(&huge)),
        2 => v.iter_mut().for_each(|x| *x = *rng.pick(&tiny)),
        3 => {
            // 8-bit rounding boundaries (j + 1/2)/8 +- ulp
            for x in v.iter_mut() {
                let j = rng.range(-130, 130) as f64;
                let b = (j + 0.5) / 8.0;
                *x = match rng.below(3) { 0 => b, 1 => f64::from_bits(b.to_bits() + 1), _ => f64::from_bits(b.to_bits() - 1) };
            }
        }
        4 => v.iter_mut().for_each(|x| *x = *rng.pick(&[15.875, -15.875, 15.9375, -15.9375, 16.0, -16.0, 15.8125, 14.5, -14.5, 14.5625, 12.5, -12.5])),
        5 => {
            // punctured blocks of exact zeros
            let a = rng.below(n);
            let b = (a + 1 + rng.below(n)).min(n);
            for x in v[a..b].iter_mut() {
                *x = 0.0;
            }
        }
        6 => v.iter_mut().for_each(|x| *x = x.abs() + 0.1), // all-zero codeword, already valid
        7 => {
            // near codeword: all positive with one or two flips
            v.iter_mut().for_each(|x| *x = x.abs() + 0.5);
            let f = rng.below(n);
            v[f] = -v[f];
            if rng.coin(1, 2) {
                let f2 = rng.below(n);
                v[f2] = -v[f2].abs() * 0.3;
            }
        }
        8 => v.iter_mut().for_each(|x| *x = if rng.coin(1, 2) { 1e30 } else { *rng.pick(&tiny) }),
        9 => v.iter_mut().for_each(|x| *x = (rng.range(-40, 40) as f64) / 16.0), // small, on the 1/16 grid
        10 => v.iter_mut().for_each(|x| *x = *x * 0.05), // weak: vanish in 8 bits
        12 => {
            // ordinary values with some KNOWN bits (shortened / pilot bits given as large LLRs): beyond the saturation points of the
            // float rules (phi ~ 20-40, tanh clamp 9-18) and of the 8-bit quantiser, next to values well inside the working range
            for x in v.iter_mut() { if rng.coin(1, 3) { *x = *rng.pick(&[25.0, 45.0, 100.0, 1e3, 1e6]) * if rng.coin(1, 3) { -1.0 } else { 1.0 }; } }
        }
        _ => v.iter_mut().for_each(|x| *x = if rng.coin(1, 3) { -*x * 4.0 } else { *x * 4.0 }),
    }
    v
}

pub fn hard_in(llrs: &[f64]) -> Vec<u8> {
    llrs.iter().map(|&x| (x <= 0.0) as u8).collect()
}

pub fn fnv(data: &[u8]) -> String {
    let mut h: u64 = 0xcbf29ce484222325;
    for &b in data {
        h ^= b as u64;
        h = h.wrapping_mul(0x100000001b3);
    }
    format!("{h:016x}")
}
