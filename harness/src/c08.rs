//! C08: alist writer / parser. Tokenises what the real code writes and feeds arbitrary texts to from_alist.
use crate::util::*;
use ldpc_toolbox::sparse::SparseMatrix;
use serde_json::{Value, json};

/// token encoding of Alist.tla: digits -> value, too long -> -2, anything else -> -1
pub fn tok(t: &str) -> i64 {
    if !t.is_empty() && t.bytes().all(|b| b.is_ascii_digit()) {
        if t.len() <= 9 { t.parse::<i64>().unwrap() } else { -2 }
    } else {
        -1
    }
}

pub fn tokenise(text: &str) -> (Vec<Vec<i64>>, bool) {
    let mut pieces: Vec<&str> = text.split('\n').collect();
    // a text that ends in '\n' has one empty trailing piece
    let trail = pieces.len() >= 2 && pieces.last() == Some(&"");
    if trail {
        pieces.pop();
    }
    (pieces.iter().map(|l| l.split_whitespace().map(tok).collect()).collect(), trail)
}

fn cols_of(h: &SparseMatrix) -> Vec<Vec<usize>> {
    (0..h.num_cols()).map(|c| h.iter_col(c).copied().collect()).collect()
}

fn parsed(text: &str) -> Result<Value, String> {
    guarded(|| match SparseMatrix::from_alist(text) {
        Ok(h) => json!({"pv": "ok", "pnr": h.num_rows(), "pnc": h.num_cols(), "pcols": cols_of(&h),
            "prows": (0..h.num_rows()).map(|r| h.iter_row(r).copied().collect::<Vec<usize>>()).collect::<Vec<_>>()}),
        Err(_) => json!({"pv": "err", "pnr": 0, "pnc": 0, "pcols": [], "prows": []}),
    })
}

fn merge(mut a: Value, b: Value) -> Value {
    for (k, v) in b.as_object().unwrap() {
        a[k] = v.clone();
    }
    a
}

fn write_event(out: &mut Out, nr: usize, nc: usize, ones: &[(usize, usize)], padded: bool) -> Option<String> {
    out.new_case();
    let mut cols: Vec<Vec<usize>> = vec![vec![]; nc];
    for &(r, c) in ones {
        if !cols[c].contains(&r) {
            cols[c].push(r);
        }
    }
    let base = json!({"nr": nr, "nc": nc, "cols": cols, "padded": padded});
    let text = guarded(|| {
        let mut h = SparseMatrix::new(nr, nc);
        // "for every matrix": however it was built.  Four construction histories, chosen by the content
        let hist = ones.iter().fold(nr * 3 + nc, |a, &(r, c)| a.wrapping_mul(31).wrapping_add(r * 17 + c)) % 4;
        match hist {
            1 => {
                // rows (columns) that first hold OTHER ones, then replaced with set_row / set_col (= clear + insert)
                for r in 0..nr { let junk: Vec<usize> = (0..nc).filter(|c| (c + r) % 2 == 0 || *c == r).collect(); h.insert_row(r, junk.iter()); }
                if ones.len() % 2 == 0 {
                    for r in 0..nr { let l: Vec<usize> = ones.iter().filter(|p| p.0 == r).map(|p| p.1).collect(); h.set_row(r, l.iter()); }
                } else {
                    for c in (0..nc).rev() { let l: Vec<usize> = ones.iter().filter(|p| p.1 == c).map(|p| p.0).collect(); h.set_col(c, l.iter()); }
                }
            }
            2 => {
                // inserted, removed again by toggle / remove / clear_col, inserted again
                for &(r, c) in ones { h.insert(r, c); }
                for (k, &(r, c)) in ones.iter().enumerate() { if k % 3 == 0 { h.toggle(r, c); } else if k % 3 == 1 { h.remove(r, c); } }
                if nc > 0 { h.clear_col(nc - 1); }
                for &(r, c) in ones.iter().rev() { h.insert(r, c); }
            }
            _ => {
                for &(r, c) in ones {
                    h.insert(r, c); // insertion order as given (unsorted): the writer must sort
                }
            }
        }
        let s = if padded { h.alist() } else { h.alist_no_padding() };
        // write_alist into a String must give the same text
        let mut s2 = String::new();
        if padded { h.write_alist(&mut s2).unwrap() } else { h.write_alist_no_padding(&mut s2).unwrap() };
        assert!(s == s2, "alist() and write_alist() differ");
        s
    });
    match text {
        Err(m) => {
            out.ev("Write", "panic", merge(base, json!({"msg": m})));
            None
        }
        Ok(text) => {
            let (lines, trail) = tokenise(&text);
            match parsed(&text) {
                Ok(p) => out.ev("Write", "ok", merge(merge(base, json!({"lines": lines, "trail": trail})), p)),
                Err(m) => out.ev("Write", "panic", merge(base, json!({"lines": lines, "msg": m, "stage": "parse-back"}))),
            }
            Some(text)
        }
    }
}

/// "moderate declared dimensions" (the property's domain): the two numbers of the first line
fn declared_too_big(text: &str) -> bool {
    text.split('\n').next().unwrap_or("").split_whitespace().any(|t| t.trim_start_matches('+').parse::<u128>().map(|v| v > 20_000).unwrap_or(false))
}

/// a numeric token above 20000 anywhere else (weights, indices): inside the domain, but a (changed) parser might take it for a size and
/// allocate gigabytes - such texts are parsed in a CHILD process under an address-space limit, so that the harness survives
fn risky(text: &str) -> bool {
    text.split_whitespace().any(|t| t.trim_start_matches('+').parse::<u128>().map(|v| v > 20_000).unwrap_or(false))
}

/// child: parse the text in --in under a 3 GiB address-space limit and write the outcome to --out
pub fn child(a: &Args) {
    unsafe {
        let lim = libc::rlimit { rlim_cur: 3 << 30, rlim_max: 3 << 30 };
        libc::setrlimit(libc::RLIMIT_AS, &lim);
    }
    let text = std::fs::read_to_string(a.input.as_ref().expect("--in")).unwrap_or_default();
    let v = match parsed(&text) { Ok(p) => json!({"o": "ok", "p": p}), Err(m) => json!({"o": "panic", "msg": m}) };
    std::fs::write(&a.out, v.to_string()).unwrap();
}

fn parsed_in_child(text: &str, work: &str) -> Result<Value, (String, String)> {
    let inp = format!("{work}/c08-risky.txt");
    let outp = format!("{work}/c08-risky.out");
    std::fs::write(&inp, text).unwrap();
    let _ = std::fs::remove_file(&outp);
    let exe = std::env::current_exe().unwrap();
    let st = std::process::Command::new("timeout").arg("30").arg(exe).args(["parsechild", "C08", "--in", &inp, "--out", &outp])
        .stdout(std::process::Stdio::null()).stderr(std::process::Stdio::null()).status();
    let res: Option<Value> = std::fs::read_to_string(&outp).ok().and_then(|t| serde_json::from_str(&t).ok());
    let _ = std::fs::remove_file(&inp);
    let _ = std::fs::remove_file(&outp);
    match res {
        Some(v) if v["o"] == "ok" => Ok(v["p"].clone()),
        Some(v) => Err(("panic".into(), v["msg"].as_str().unwrap_or("").to_string())),
        None => Err(("abort".into(), format!("the parsing process died ({st:?}): allocation failure / abort / time-out"))),
    }
}

thread_local! { static WORK: std::cell::RefCell<String> = const { std::cell::RefCell::new(String::new()) }; }

fn parse_event(out: &mut Out, text: &str, kind: &str) {
    if declared_too_big(text) {
        return; // outside the property's domain ("moderate declared dimensions")
    }
    out.new_case();
    let (lines, _) = tokenise(text);
    if risky(text) {
        let work = WORK.with(|w| w.borrow().clone());
        match parsed_in_child(text, &work) {
            Ok(p) => out.ev("Parse", "ok", merge(json!({"lines": lines, "kind": kind, "child": true}), p)),
            Err((o, m)) => out.ev("Parse", &o, json!({"lines": lines, "kind": kind, "child": true, "msg": m, "text": text.chars().take(300).collect::<String>()})),
        }
        return;
    }
    match parsed(text) {
        Ok(p) => out.ev("Parse", "ok", merge(json!({"lines": lines, "kind": kind}), p)),
        Err(m) => out.ev("Parse", "panic", json!({"lines": lines, "kind": kind, "msg": m, "text": text.chars().take(300).collect::<String>()})),
    }
}

fn random_ones(rng: &mut Rng, nr: usize, nc: usize, dens: u64) -> Vec<(usize, usize)> {
    let mut v = vec![];
    for r in 0..nr {
        for c in 0..nc {
            if rng.coin(dens, 100) {
                v.push((r, c));
            }
        }
    }
    rng.shuffle(&mut v);
    v
}

fn mutate(rng: &mut Rng, text: &str) -> String {
    let mut lines: Vec<String> = text.split('\n').map(|s| s.to_string()).collect();
    let n = lines.len();
    match rng.below(17) {
        0 => { lines.remove(rng.below(n)); }
        1 => { let k = rng.below(n); let l = lines[k].clone(); lines.insert(k, l); }
        2 => { let a = rng.below(n); let b = rng.below(n); lines.swap(a, b); }
        3 => {
            // change one digit
            let k = rng.below(n);
            let mut b = lines[k].clone().into_bytes();
            if !b.is_empty() {
                let p = rng.below(b.len());
                if b[p].is_ascii_digit() { b[p] = b'0' + rng.below(10) as u8; }
            }
            lines[k] = String::from_utf8(b).unwrap();
        }
        4 => { let keep = rng.below(n); lines.truncate(keep); }
        5 => { let k = rng.below(n); lines[k].push_str(" -1"); }
        6 => { let k = rng.below(n); lines[k].push_str(" 99999"); }
        7 => { let k = rng.below(n); lines[k] = format!("1e3 {}", lines[k]); }
        8 => { return lines.join("\r\n"); }
        9 => { return lines.iter().map(|l| l.replace(' ', "\t")).collect::<Vec<_>>().join("\n"); }
        10 => {
            // non-ASCII tokens, short and LONG (multi-byte characters at every byte offset up to 20: a parser that quotes or truncates the
            // offending token by BYTES must not split a character)
            let k = rng.below(n);
            let pad = rng.below(21);
            let tok = format!("{}{}", "7".repeat(pad), ["\u{00e9}\u{2603}x", "\u{1d7d9}\u{1d7da}\u{1d7db}", "\u{2603}\u{2603}\u{2603}\u{2603}\u{2603}", "\u{00e9}"][rng.below(4)]);
            if rng.coin(1, 2) { lines[k].push(' '); lines[k].push_str(&tok); } else {
                let mut toks: Vec<String> = lines[k].split(' ').map(|t| t.to_string()).collect();
                let t = rng.below(toks.len().max(1));
                if toks.is_empty() { toks.push(tok); } else { toks[t] = tok; }
                lines[k] = toks.join(" ");
            }
        }
        11 => {
            // out-of-range index: append nrows+1 (declared) to a column line
            let nrows: usize = lines[0].split_whitespace().nth(1).and_then(|t| t.parse().ok()).unwrap_or(3);
            let k = 4 + rng.below(n.saturating_sub(4).max(1));
            if k < n { lines[k].push_str(&format!(" {}", nrows + 1 + rng.below(3))); }
        }
        12 => { let k = rng.below(n); lines[k] = String::new(); }
        13 => {
            // non-canonical spellings of numbers: 0 -> 00 / 000, k -> 0k
            let k = rng.below(n);
            let sp = ["00", "000", "0"][rng.below(3)];
            lines[k] = lines[k].split(' ').map(|t| if t == "0" { sp.to_string() } else if rng.coin(1, 3) && !t.is_empty() && t.bytes().all(|b| b.is_ascii_digit()) { format!("0{t}") } else { t.to_string() }).collect::<Vec<_>>().join(" ");
        }
        15 => {
            // a column line that lists an index twice, out of order ("4 2 4"): still the SET {2, 4}
            let k = if n > 4 { 4 + rng.below(n - 4) } else { 0 };
            let toks: Vec<String> = lines[k].split(' ').filter(|t| !t.is_empty()).map(|t| t.to_string()).collect();
            if toks.len() >= 2 { let mut t2 = toks.clone(); t2.push(toks[0].clone()); t2.swap(0, 1); lines[k] = t2.join(" "); }
        }
        14 => {
            // one token of a line after the first (a weight or an index) replaced by a huge number
            let k = if n > 1 { 1 + rng.below(n - 1) } else { 0 };
            let mut toks: Vec<String> = lines[k].split(' ').map(|t| t.to_string()).collect();
            let t = rng.below(toks.len().max(1));
            if !toks.is_empty() { toks[t] = ["1152921504606846976", "4000000000", "18446744073709551615", "18446744073709551616", "300000", "99999999999"][rng.below(6)].to_string(); }
            lines[k] = toks.join(" ");
        }
        _ => { let k = rng.below(n); lines[k] = format!("  {}  ", lines[k].replace(' ', "   ")); }
    }
    lines.join("\n")
}

fn soup(rng: &mut Rng) -> String {
    let toks = ["0", "1", "2", "3", "4", "5", "7", "12", "-1", "x", "", "1.5", "+2", "0007", "99999999999", "3", "2", "1", "00", "+0", "000", "-0", "01"];
    let nl = rng.below(9);
    let mut s = String::new();
    for _ in 0..nl {
        let nt = rng.below(5);
        for t in 0..nt {
            if t > 0 { s.push(' '); }
            s.push_str(toks[rng.below(toks.len())]);
        }
        s.push('\n');
    }
    s
}

pub fn generate(a: &Args) {
    let mut out = Out::create(&a.out);
    WORK.with(|w| *w.borrow_mut() = std::path::Path::new(&a.out).parent().unwrap().to_str().unwrap().to_string());
    let mut rng = Rng::new(a.seed ^ 0xC08);
    let th = is_thorough(a);
    let mut corpus: Vec<String> = vec![];
    // exhaustive small matrices, both paddings
    let (rmax, cmax) = if th { (3, 4) } else { (3, 3) };
    for nr in 1..=rmax {
        for nc in 1..=cmax {
            for x in 0u64..(1u64 << (nr * nc)) {
                let mut ones: Vec<(usize, usize)> =
                    (0..nr * nc).filter(|&b| (x >> b) & 1 == 1).map(|b| (b / nc, b % nc)).collect();
                ones.reverse();
                for padded in [true, false] {
                    if let Some(t) = write_event(&mut out, nr, nc, &ones, padded) {
                        if x % 37 == 5 { corpus.push(t); }
                    }
                }
            }
        }
    }
    // random matrices of every density, with empty rows/columns and the all-zero matrix
    let nrand = if th { 5000 } else { 160 };
    for i in 0..nrand {
        let (nr, nc) = if i % 10 == 9 { (20 + rng.below(21), 30 + rng.below(31)) } else { (1 + rng.below(12), 1 + rng.below(16)) };
        let dens = [0u64, 3, 10, 25, 50, 80, 100][i % 7];
        let mut ones = random_ones(&mut rng, nr, nc, dens);
        if i % 3 == 0 && nr > 1 {
            let dead = rng.below(nr);
            ones.retain(|p| p.0 != dead);
        }
        if i % 4 == 0 && nc > 1 {
            let dead = rng.below(nc);
            ones.retain(|p| p.1 != dead);
        }
        for padded in [true, false] {
            if let Some(t) = write_event(&mut out, nr, nc, &ones, padded) {
                if nr <= 8 && nc <= 10 { corpus.push(t); }
            }
        }
    }
    // totality: valid texts (incl. mixed padding), mutations, token soups
    for t in corpus.iter() {
        parse_event(&mut out, t, "valid");
    }
    let nmut = if th { 120000 } else { 2500 };
    for i in 0..nmut {
        let base = &corpus[rng.below(corpus.len())];
        let mut t = mutate(&mut rng, base);
        if i % 5 == 0 {
            t = mutate(&mut rng, &t);
        }
        parse_event(&mut out, &t, "mutated");
    }
    let nsoup = if th { 40000 } else { 1200 };
    for _ in 0..nsoup {
        let t = soup(&mut rng);
        parse_event(&mut out, &t, "soup");
    }
    for t in ["", "\n", " ", "2", "2 2", "2 2\n", "0 0\n", "2 2\n1 1\n1 1\n1 1\n3\n1\n1\n2\n", "1 1\n\n\n\n0 0 0\n", "3 2\n1 2\n1 0 1\n2 0\n1 \n\n2\n1 3\n\n"] {
        parse_event(&mut out, t, "directed");
    }
    out.finish();
}

pub fn mutate_pub(rng: &mut Rng, text: &str) -> String { mutate(rng, text) }
