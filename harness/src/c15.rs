//! C15: Interleaver / Puncturer on tagged inputs; every output index is recomputed by TLC (Chain.tla).
use crate::util::*;
use ldpc_toolbox::gf2::GF2;
use ldpc_toolbox::simulation::interleaving::Interleaver;
use ldpc_toolbox::simulation::puncturing::Puncturer;
use ndarray::Array1;
use num_traits::{One, Zero};
use serde_json::json;

/// The same logical sequence through four memory layouts ("for all vectors": the functions take array VIEWS): owned and contiguous,
/// a reversed view of reversed storage (stride -1), every second element of padded storage (stride 2), and stride -2.
fn with_layout<T: Clone, R>(xs: &[T], filler: T, layout: usize, f: impl FnOnce(ndarray::ArrayView1<T>) -> R) -> R {
    use ndarray::s;
    match layout % 4 {
        0 => f(Array1::from_vec(xs.to_vec()).view()),
        1 => { let st = Array1::from_iter(xs.iter().rev().cloned()); f(st.slice(s![..;-1])) }
        2 => { let st = Array1::from_iter(xs.iter().flat_map(|x| [x.clone(), filler.clone()])); f(st.slice(s![..;2])) }
        _ => { let st = Array1::from_iter(xs.iter().rev().flat_map(|x| [filler.clone(), x.clone()])); f(st.slice(s![..;-2])) }
    }
}
const LAYOUTS: [&str; 4] = ["owned", "stride -1", "stride 2", "stride -2"];

// Interleaver and Puncturer objects are LONG-LIVED here (one per configuration for the whole run, as a BER worker keeps them): the same
// object serves calls of many different lengths, so anything an object remembers from an earlier call shows
thread_local! {
    static ILS: std::cell::RefCell<std::collections::HashMap<(usize, bool), Interleaver>> = std::cell::RefCell::new(Default::default());
    static PUS: std::cell::RefCell<std::collections::HashMap<Vec<bool>, Puncturer>> = std::cell::RefCell::new(Default::default());
}
fn with_il<R>(c: usize, back: bool, f: impl FnOnce(&Interleaver) -> R) -> R {
    ILS.with(|m| { let mut m = m.borrow_mut(); let il = m.entry((c, back)).or_insert_with(|| Interleaver::new(c, back)); f(il) })
}
fn with_pu<R>(pat: &[bool], f: impl FnOnce(&Puncturer) -> R) -> R {
    PUS.with(|m| { let mut m = m.borrow_mut(); let pu = m.entry(pat.to_vec()).or_insert_with(|| Puncturer::new(pat)); f(pu) })
}

fn il_events(out: &mut Out, c: usize, r: usize, back: bool) {
    let n = c * r;
    let tags: Vec<i64> = (1..=n as i64).collect();
    // u32 elements
    out.new_case();
    let lay = c + 2 * r + back as usize;
    let t32: Vec<u32> = tags.iter().map(|&t| t as u32).collect();
    match guarded(|| with_layout(&t32, 0u32, lay, |v| with_il(c, back, |il| il.interleave(&v).to_vec()))) {
        Ok(y) => out.ev("Il", "ok", json!({"C": c, "back": back, "ty": "u32", "layout": LAYOUTS[lay % 4], "x": tags, "y": y})),
        Err(m) => out.ev("Il", "panic", json!({"C": c, "back": back, "ty": "u32", "x": tags, "msg": m})),
    }
    // f64 elements (tags are exactly representable)
    out.new_case();
    match guarded(|| with_il(c, back, |il| il.interleave(&Array1::from_iter(tags.iter().map(|&t| t as f64))).to_vec())) {
        Ok(y) => out.ev("Il", "ok", json!({"C": c, "back": back, "ty": "f64", "x": tags, "y": y.iter().map(|&v| v as i64).collect::<Vec<_>>()})),
        Err(m) => out.ev("Il", "panic", json!({"C": c, "back": back, "ty": "f64", "x": tags, "msg": m})),
    }
    // GF2 elements: a bit pattern (tag parity mixed) — values 0/1
    out.new_case();
    let bits: Vec<i64> = tags.iter().map(|&t| ((t * 7 + t / 3) % 2)).collect();
    match guarded(|| with_il(c, back, |il| il.interleave(&Array1::from_iter(bits.iter().map(|&b| if b == 1 { GF2::one() } else { GF2::zero() }))).to_vec())) {
        Ok(y) => out.ev("Il", "ok", json!({"C": c, "back": back, "ty": "gf2", "x": bits, "y": y.iter().map(|v| if v.is_one() { 1 } else { 0 }).collect::<Vec<i64>>()})),
        Err(m) => out.ev("Il", "panic", json!({"C": c, "back": back, "ty": "gf2", "x": bits, "msg": m})),
    }
    // deinterleave (slices) of tags, and of the interleaved stream produced independently by the formula
    out.new_case();
    match guarded(|| with_il(c, back, |il| il.deinterleave(&tags))) {
        Ok(y) => out.ev("Dl", "ok", json!({"C": c, "back": back, "x": tags, "y": y})),
        Err(m) => out.ev("Dl", "panic", json!({"C": c, "back": back, "x": tags, "msg": m})),
    }
    out.new_case();
    let f: Vec<f64> = tags.iter().map(|&t| t as f64 + 0.5).collect();
    match guarded(|| with_il(c, back, |il| il.deinterleave(&f))) {
        Ok(y) => out.ev("Dl", "ok", json!({"C": c, "back": back, "x": tags, "y": y.iter().map(|v| (*v - 0.5) as i64).collect::<Vec<_>>()})),
        Err(m) => out.ev("Dl", "panic", json!({"C": c, "back": back, "x": tags, "msg": m})),
    }
}

fn pu_events(out: &mut Out, pat: &[bool], len: usize) {
    let p01: Vec<u8> = pat.iter().map(|&b| b as u8).collect();
    let tags: Vec<i64> = (1..=len as i64).collect();
    out.new_case();
    let lay = len + pat.len() + pat.iter().filter(|&&b| b).count();
    match guarded(|| with_layout(&tags, -7i64, lay, |v| with_pu(pat, |pu| pu.puncture(&v)))) {
        Ok(Ok(y)) => out.ev("Pu", "ok", json!({"pat": p01, "x": tags, "v": "ok", "layout": LAYOUTS[lay % 4], "y": y.to_vec()})),
        Ok(Err(_)) => out.ev("Pu", "ok", json!({"pat": p01, "x": tags, "v": "err", "y": []})),
        Err(m) => out.ev("Pu", "panic", json!({"pat": p01, "x": tags, "msg": m})),
    }
    out.new_case();
    match guarded(|| with_pu(pat, |pu| pu.depuncture(&tags))) {
        Ok(Ok(y)) => out.ev("De", "ok", json!({"pat": p01, "x": tags, "v": "ok", "y": y})),
        Ok(Err(_)) => out.ev("De", "ok", json!({"pat": p01, "x": tags, "v": "err", "y": []})),
        Err(m) => out.ev("De", "panic", json!({"pat": p01, "x": tags, "msg": m})),
    }
    // f64 depuncture (the type the BER chain uses): zero must be exactly 0.0
    out.new_case();
    let f: Vec<f64> = tags.iter().map(|&t| t as f64).collect();
    match guarded(|| with_pu(pat, |pu| pu.depuncture(&f))) {
        Ok(Ok(y)) => {
            let exact = y.iter().all(|v| v.fract() == 0.0);
            out.ev("De", if exact { "ok" } else { "inexact" }, json!({"pat": p01, "x": tags, "v": "ok", "y": y.iter().map(|&v| v as i64).collect::<Vec<_>>()}))
        }
        Ok(Err(_)) => out.ev("De", "ok", json!({"pat": p01, "x": tags, "v": "err", "y": []})),
        Err(m) => out.ev("De", "panic", json!({"pat": p01, "x": tags, "msg": m})),
    }
}

pub fn generate(a: &Args) {
    let mut out = Out::create(&a.out);
    let mut rng = Rng::new(a.seed ^ 0xC15);
    let th = is_thorough(a);
    let m = if th { 14 } else { 6 };
    for c in 1..=m { for r in 1..=m { for back in [false, true] { il_events(&mut out, c, r, back); } } }
    for _ in 0..(if th { 3000 } else { 40 }) {
        let c = 1 + rng.below(40);
        let r = 1 + rng.below(40);
        il_events(&mut out, c, r, rng.coin(1, 2));
    }
    // every pattern up to length 5 (6 thorough) with at least one true, all lengths 0..=3*len+2 (fits and misfits)
    let maxp = if th { 8 } else { 5 };
    for plen in 1..=maxp {
        for x in 1u32..(1u32 << plen) {
            let pat: Vec<bool> = (0..plen).map(|k| (x >> k) & 1 == 1).collect();
            out.new_case();
            let r = guarded(|| Puncturer::new(&pat).rate());
            match r {
                Ok(v) => out.ev("Ra", "ok", json!({"pat": pat.iter().map(|&b| b as u8).collect::<Vec<_>>(), "micro": (v * 1e6).round() as i64})),
                Err(m) => out.ev("Ra", "panic", json!({"pat": pat.iter().map(|&b| b as u8).collect::<Vec<_>>(), "msg": m})),
            }
            for len in 0..=(3 * plen + 2) { pu_events(&mut out, &pat, len); }
        }
    }
    for _ in 0..(if th { 4000 } else { 50 }) {
        let plen = 1 + rng.below(12);
        let mut pat: Vec<bool> = (0..plen).map(|_| rng.coin(1, 2)).collect();
        let k = rng.below(plen);
        pat[k] = true;
        let len = if rng.coin(2, 3) { plen * (1 + rng.below(6)) } else { rng.below(80) };
        pu_events(&mut out, &pat, len);
        let t = pat.iter().filter(|&&b| b).count();
        pu_events(&mut out, &pat, t * (1 + rng.below(5)));
    }
    out.finish();
}
