//! C17: operation histories on SparseMatrix, with the full projected state after every step.
use crate::util::*;
use ldpc_toolbox::sparse::SparseMatrix;
use serde_json::{Value, json};

pub fn observe(h: &SparseMatrix) -> Value {
    let nr = h.num_rows();
    let nc = h.num_cols();
    let mut cells = vec![];
    for r in 0..nr {
        for c in 0..nc {
            if h.contains(r, c) {
                cells.push(json!([r, c]));
            }
        }
    }
    let rw: Vec<usize> = (0..nr).map(|r| h.row_weight(r)).collect();
    let cw: Vec<usize> = (0..nc).map(|c| h.col_weight(c)).collect();
    let rows: Vec<Vec<usize>> = (0..nr).map(|r| h.iter_row(r).copied().collect()).collect();
    let cols: Vec<Vec<usize>> = (0..nc).map(|c| h.iter_col(c).copied().collect()).collect();
    let all: Vec<Value> = h.iter_all().map(|(r, c)| json!([r, c])).collect();
    json!({"nr": nr, "nc": nc, "cells": cells, "rw": rw, "cw": cw, "rows": rows, "cols": cols, "all": all})
}

#[derive(Clone, Debug)]
pub struct Op {
    pub op: String,
    pub r: usize,
    pub c: usize,
    pub idx: Vec<usize>,
}

pub fn apply(h: &mut SparseMatrix, op: &Op) {
    match op.op.as_str() {
        "insert" => h.insert(op.r, op.c),
        "remove" => h.remove(op.r, op.c),
        "toggle" => h.toggle(op.r, op.c),
        "insert_row" => h.insert_row(op.r, op.idx.iter()),
        "insert_col" => h.insert_col(op.c, op.idx.iter()),
        "clear_row" => h.clear_row(op.r),
        "clear_col" => h.clear_col(op.c),
        "set_row" => h.set_row(op.r, op.idx.iter()),
        "set_col" => h.set_col(op.c, op.idx.iter()),
        other => panic!("vh: unknown op {other}"),
    }
}

/// Run one history as one case.
pub fn run_history(out: &mut Out, nr: usize, nc: usize, ops: &[Op]) {
    out.new_case();
    let h0 = guarded(|| SparseMatrix::new(nr, nc));
    let mut h = match h0 {
        Ok(h) => h,
        Err(m) => {
            out.ev("New", "panic", json!({"nr": nr, "nc": nc, "msg": m}));
            return;
        }
    };
    out.ev("New", "ok", json!({"nr": nr, "nc": nc, "obs": observe(&h)}));
    for op in ops {
        let before = h.clone();
        let res = guarded(|| {
            apply(&mut h, op);
            (h == before, observe(&h))
        });
        match res {
            Ok((eq, obs)) => out.ev(
                "Op",
                "ok",
                json!({"op": op.op, "r": op.r, "c": op.c, "idx": op.idx, "eq": eq, "obs": obs}),
            ),
            Err(m) => {
                out.ev("Op", "panic", json!({"op": op.op, "r": op.r, "c": op.c, "idx": op.idx, "msg": m}));
                return;
            }
        }
    }
}

const OPS: [&str; 9] = [
    "insert", "remove", "toggle", "insert_row", "insert_col", "clear_row", "clear_col", "set_row", "set_col",
];

fn random_op(rng: &mut Rng, h_nr: usize, h_nc: usize, present: &[(usize, usize)]) -> Op {
    let op = OPS[rng.below(OPS.len())].to_string();
    // bias toward re-inserting present / removing absent entries
    let (mut r, mut c) = (rng.below(h_nr), rng.below(h_nc));
    if !present.is_empty() && rng.coin(1, 2) {
        let p = present[rng.below(present.len())];
        r = p.0;
        c = p.1;
    }
    let over = if op.ends_with("row") { h_nc } else { h_nr };
    let k = rng.below(over + 3);
    let idx: Vec<usize> = (0..k).map(|_| rng.below(over)).collect(); // repeats allowed
    Op { op, r, c, idx }
}

pub fn generate(a: &Args) {
    let mut out = Out::create(&a.out);
    let mut rng = Rng::new(a.seed ^ 0xC17);
    let (hist, len) = if is_thorough(a) { (1500, 200) } else { (40, 60) };
    let shapes = [(1, 1), (1, 4), (3, 1), (2, 3), (3, 3), (4, 5), (6, 8), (5, 2)];
    for hidx in 0..hist {
        let (nr, nc) = shapes[hidx % shapes.len()];
        // generate ops while tracking a shadow matrix only to bias the choice (not a verdict)
        let mut shadow = SparseMatrix::new(nr, nc);
        let mut ops = vec![];
        for step in 0..len {
            let present: Vec<(usize, usize)> = shadow.iter_all().collect();
            let op = if hidx % 5 == 4 && step % 7 == 0 {
                // CCSDS / MacKay idioms: insert_col then toggles, clear_col afterwards
                Op { op: "insert_col".into(), r: 0, c: rng.below(nc), idx: (0..nr).filter(|_| rng.coin(1, 2)).collect() }
            } else {
                random_op(&mut rng, nr, nc, &present)
            };
            let _ = guarded(|| apply(&mut shadow, &op));
            ops.push(op);
        }
        run_history(&mut out, nr, nc, &ops);
    }
    out.finish();
}

/// spec -> impl: replay TLC-generated behaviours of Sparse.tla.
/// Input lines: {"nr":..,"nc":..,"ops":[{"op":..,"r":..,"c":..,"idx":[..]},..]}
pub fn replay(a: &Args) {
    let mut out = Out::create(&a.out);
    let text = std::fs::read_to_string(a.input.as_ref().expect("--in")).expect("read cases");
    for line in text.lines().filter(|l| !l.trim().is_empty()) {
        let v: Value = serde_json::from_str(line).expect("case json");
        let nr = v["nr"].as_u64().unwrap() as usize;
        let nc = v["nc"].as_u64().unwrap() as usize;
        let ops: Vec<Op> = v["ops"]
            .as_array()
            .unwrap()
            .iter()
            .map(|o| Op {
                op: o["op"].as_str().unwrap().to_string(),
                r: o["r"].as_u64().unwrap() as usize,
                c: o["c"].as_u64().unwrap() as usize,
                idx: o["idx"].as_array().map(|x| x.iter().map(|y| y.as_u64().unwrap() as usize).collect()).unwrap_or_default(),
            })
            .collect();
        run_history(&mut out, nr, nc, &ops);
    }
    out.finish();
}
