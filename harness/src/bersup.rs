//! Support for the BER-engine properties (C12, C13): a decoder injected through the public DecoderFactory that
//! records what the chain hands it and answers by script, plus helpers to build small systematic codes.
use ldpc_toolbox::decoder::factory::DecoderFactory;
use ldpc_toolbox::decoder::{DecoderOutput, LdpcDecoder};
use ldpc_toolbox::sparse::SparseMatrix;
use std::sync::atomic::{AtomicU64, AtomicUsize, Ordering};
use std::sync::{Arc, Mutex};

/// What the scripted decoder does with frame number `seq` of worker `worker`.
#[derive(Clone, Debug)]
pub enum Act {
    /// return Ok(hard decision of the received LLRs), `iters` iterations
    Good { iters: usize },
    /// flip `flips` systematic bits of the hard decision; verdict Ok (=> false decode) or Err
    Bad { flips: usize, ok: bool, iters: usize },
    /// return Err with every bit inverted (always a frame error; used by the noise runs)
    Invert,
    /// panic inside decode()
    Panic,
}

#[derive(Clone, Debug)]
pub struct FrameRec {
    pub worker: usize,
    pub seq: u64,
    pub len: usize,
    pub zero_pos: Vec<usize>,
    pub hard: Vec<u8>,
    pub act: String,
    pub flips: usize,
    pub iters: usize,
    pub ok: bool,
}

pub type Script = Arc<dyn Fn(usize, u64) -> Act + Send + Sync>;

pub struct Shared {
    pub frames: Mutex<Vec<FrameRec>>,
    pub llr_stats: Mutex<LlrStats>,
    /// the same statistics per decoder (decoders are numbered in build order: the first W belong to the first Eb/N0 point, ...)
    pub llr_by_dec: Mutex<std::collections::HashMap<usize, LlrStats>>,
    pub built: AtomicUsize,
    pub dropped: AtomicUsize,
    pub total_frames: AtomicU64,
    pub keep_frames: usize,
    pub delay_us: u64,
    pub collect_llrs: bool,
    pub k: usize,
    /// build_decoder() takes this long (decoders of large codes are slow to build): early workers run ahead of the collector
    pub build_delay_ms: std::sync::atomic::AtomicU64,
}

#[derive(Default, Clone, Debug)]
pub struct LlrStats {
    pub n: u64,
    pub sum_abs: f64,
    pub sum_sq: f64,
    pub sum_lag1: f64, // sum |x_i|*|x_{i+1}| over adjacent LLRs of one frame (independence probe)
    pub n_lag1: u64,
    pub sum: f64,
    /// per position of the frame (codeword order): up to 64 distinct LLR bit patterns seen, and the number of frames
    pub pos_distinct: Vec<std::collections::HashSet<u64>>,
    pub frames: u64,
    /// digests of whole frames (up to 300 000), frames seen again, and the decoders (workers) that delivered frames
    pub frame_digests: std::collections::HashSet<u64>,
    pub dup_frames: u64,
    pub decoders: std::collections::HashSet<usize>,
}

impl LlrStats {
    pub fn add_frame(&mut self, llrs: &[f64], skip_zero: bool) {
        if self.pos_distinct.len() < llrs.len() { self.pos_distinct.resize(llrs.len(), Default::default()); }
        for (set, x) in self.pos_distinct.iter_mut().zip(llrs.iter()) { if set.len() < 64 { set.insert(x.to_bits()); } }
        self.frames += 1;
        let v: Vec<f64> = llrs.iter().copied().filter(|x| !(skip_zero && *x == 0.0)).collect();
        for &x in &v {
            self.n += 1;
            self.sum_abs += x.abs();
            self.sum_sq += x * x;
            self.sum += x;
        }
        for w in v.windows(2) {
            self.sum_lag1 += w[0].abs() * w[1].abs();
            self.n_lag1 += 1;
        }
    }
}

impl LlrStats {
    /// moments of several decoders together (positions / digests are not merged)
    pub fn merged<'a>(parts: impl Iterator<Item = &'a LlrStats>) -> LlrStats {
        let mut m = LlrStats::default();
        for p in parts { m.n += p.n; m.sum_abs += p.sum_abs; m.sum_sq += p.sum_sq; m.sum_lag1 += p.sum_lag1; m.n_lag1 += p.n_lag1; m.sum += p.sum; m.frames += p.frames; }
        m
    }
}

#[derive(Clone)]
pub struct ScriptedFactory {
    pub shared: Arc<Shared>,
    pub script: Script,
}

impl std::fmt::Display for ScriptedFactory {
    fn fmt(&self, f: &mut std::fmt::Formatter<'_>) -> std::fmt::Result {
        write!(f, "Scripted")
    }
}

impl DecoderFactory for ScriptedFactory {
    fn build_decoder(&self, _h: SparseMatrix) -> Box<dyn LdpcDecoder> {
        let id = self.shared.built.fetch_add(1, Ordering::SeqCst);
        let d = self.shared.build_delay_ms.load(Ordering::SeqCst);
        if d > 0 { std::thread::sleep(std::time::Duration::from_millis(d)); }
        Box::new(ScriptedDecoder { id, seq: 0, shared: self.shared.clone(), script: self.script.clone(), rng: 0x9E3779B97F4A7C15u64.wrapping_mul(id as u64 + 1) })
    }
}

pub struct ScriptedDecoder {
    id: usize,
    seq: u64,
    shared: Arc<Shared>,
    script: Script,
    rng: u64,
}

impl std::fmt::Debug for ScriptedDecoder {
    fn fmt(&self, f: &mut std::fmt::Formatter<'_>) -> std::fmt::Result {
        write!(f, "ScriptedDecoder({})", self.id)
    }
}

impl Drop for ScriptedDecoder {
    fn drop(&mut self) {
        self.shared.dropped.fetch_add(1, Ordering::SeqCst);
    }
}

impl LdpcDecoder for ScriptedDecoder {
    fn decode(&mut self, llrs: &[f64], _max_iterations: usize) -> Result<DecoderOutput, DecoderOutput> {
        let seq = self.seq;
        self.seq += 1;
        self.shared.total_frames.fetch_add(1, Ordering::SeqCst);
        if self.shared.delay_us > 0 {
            // perturb arrival order of the workers' results
            self.rng ^= self.rng << 13; self.rng ^= self.rng >> 7; self.rng ^= self.rng << 17;
            std::thread::sleep(std::time::Duration::from_micros(self.rng % (self.shared.delay_us + 1)));
        }
        let act = (self.script)(self.id, seq);
        let hard: Vec<u8> = llrs.iter().map(|&x| (x <= 0.0) as u8).collect();
        if self.shared.collect_llrs {
            let mut st = self.shared.llr_stats.lock().unwrap();
            st.add_frame(llrs, true);
            // two frames with the same LLR vector (noise is continuous: different workers, or one worker twice, must never repeat a frame)
            let mut d = 0xcbf29ce484222325u64;
            for x in llrs { d = (d ^ x.to_bits()).wrapping_mul(0x100000001b3); }
            if !st.frame_digests.insert(d) { st.dup_frames += 1; }
            if st.frame_digests.len() > 300_000 { st.frame_digests.clear(); }
            st.decoders.insert(self.id);
            drop(st);
            self.shared.llr_by_dec.lock().unwrap().entry(self.id).or_default().add_frame(llrs, true);
        }
        let (word, ok, iters, name, flips) = match &act {
            Act::Good { iters } => (hard.clone(), true, *iters, "good", 0),
            Act::Bad { flips, ok, iters } => {
                let mut w = hard.clone();
                for t in 0..(*flips).min(self.shared.k) {
                    let p = (seq as usize * 7 + t * 3 + self.id) % self.shared.k;
                    // distinct positions: walk forward to a not-yet-flipped systematic bit
                    let mut q = p;
                    while w[q] != hard[q] { q = (q + 1) % self.shared.k; }
                    w[q] ^= 1;
                }
                if *flips == 0 && !*ok && w.len() > self.shared.k {
                    let q = self.shared.k + (seq as usize + self.id) % (w.len() - self.shared.k);   // a parity bit is wrong
                    w[q] ^= 1;
                }
                (w, *ok, *iters, "bad", *flips)
            }
            Act::Invert => (hard.iter().map(|b| b ^ 1).collect(), false, 1, "invert", self.shared.k),
            Act::Panic => {
                self.rec(seq, llrs, &hard, "panic", 0, 0, false);
                panic!("scripted decoder panic (worker {}, frame {})", self.id, seq);
            }
        };
        self.rec(seq, llrs, &hard, name, flips, iters, ok);
        let out = DecoderOutput { codeword: word, iterations: iters };
        if ok { Ok(out) } else { Err(out) }
    }
}

impl ScriptedDecoder {
    fn rec(&self, seq: u64, llrs: &[f64], hard: &[u8], act: &str, flips: usize, iters: usize, ok: bool) {
        let mut f = self.shared.frames.lock().unwrap();
        // per-decoder cap (seq counts the frames of THIS decoder): free-running workers may produce millions of frames
        if (f.len() < self.shared.keep_frames && seq < 400) || act == "panic" {
            f.push(FrameRec { worker: self.id, seq, len: llrs.len(), zero_pos: (0..llrs.len()).filter(|&i| llrs[i] == 0.0).collect(),
                hard: hard.to_vec(), act: act.to_string(), flips, iters, ok });
        }
    }
}

pub fn shared(k: usize, keep_frames: usize, delay_us: u64, collect_llrs: bool) -> Arc<Shared> {
    Arc::new(Shared { frames: Mutex::new(vec![]), llr_stats: Mutex::new(LlrStats::default()), llr_by_dec: Mutex::new(Default::default()), built: AtomicUsize::new(0), dropped: AtomicUsize::new(0),
        total_frames: AtomicU64::new(0), keep_frames, delay_us, collect_llrs, k, build_delay_ms: AtomicU64::new(0) })
}

/// A systematic code with n_cw columns and r rows: H = [A | T], T lower-triangular with unit diagonal (invertible),
/// A pseudo-random with every row weight >= 1. Returned as row adjacency lists.
pub fn systematic_code(ncw: usize, r: usize, salt: u64) -> Vec<Vec<usize>> {
    let k = ncw - r;
    let mut x = salt.wrapping_mul(0x9E3779B97F4A7C15) | 1;
    let mut nxt = || { x ^= x << 13; x ^= x >> 7; x ^= x << 17; x };
    (0..r).map(|j| {
        let mut row: Vec<usize> = (0..k).filter(|_| nxt() % 3 == 0).collect();
        if row.is_empty() && k > 0 { row.push(j % k); }
        for t in 0..j { if nxt() % 4 == 0 { row.push(k + t); } }
        row.push(k + j);
        row.sort_unstable();
        row
    }).collect()
}

/// A code whose parity part is invertible but NOT triangular (the tail columns of `systematic_code` rotated and two rows exchanged):
/// the dense encoder's elimination has to exchange rows to build its generator.
pub fn pivoting_code(ncw: usize, r: usize, salt: u64) -> Vec<Vec<usize>> {
    let k = ncw - r;
    let mut rows = systematic_code(ncw, r, salt);
    if r >= 2 {
        let shift = 1 + (salt as usize) % (r - 1);
        for row in rows.iter_mut() {
            for v in row.iter_mut() { if *v >= k { *v = k + (*v - k + shift) % r; } }
            row.sort_unstable();
        }
        rows.swap(0, r - 1);
    }
    rows
}

pub fn set_affinity(ncpu: usize) -> bool {
    // restrict this thread (and the threads it spawns afterwards) to the first `ncpu` CPUs: num_cpus::get() follows it
    unsafe {
        let mut set: libc::cpu_set_t = std::mem::zeroed();
        libc::CPU_ZERO(&mut set);
        for c in 0..ncpu { libc::CPU_SET(c, &mut set); }
        libc::sched_setaffinity(0, std::mem::size_of::<libc::cpu_set_t>(), &set) == 0
    }
}

/// Run `f` on its own thread; None if it does not finish within `secs` (the thread is leaked: a hang is data).
pub fn with_timeout<T: Send + 'static>(secs: u64, f: impl FnOnce() -> T + Send + 'static) -> Option<Result<T, String>> {
    let (tx, rx) = std::sync::mpsc::channel();
    std::thread::spawn(move || {
        let r = crate::util::guarded(f);
        let _ = tx.send(r);
    });
    rx.recv_timeout(std::time::Duration::from_secs(secs)).ok()
}
