//! C19: the extern "C" interface, called from a CHILD process (a panic inside extern "C" aborts) with a write-ahead
//! record per call; every C call is paired with the result of the public Rust API on FRESH objects.
use crate::bersup::systematic_code;
use crate::c08;
use crate::decoders::{NAMES, build, llr_vector, matrix, random_code, result_json};
use crate::util::*;
use ldpc_toolbox::encoder::Encoder;
use ldpc_toolbox::gf2::GF2;
use ldpc_toolbox::simulation::puncturing::Puncturer;
use ldpc_toolbox::sparse::SparseMatrix;
use ndarray::Array1;
use num_traits::{One, Zero};
use serde_json::{Value, json};
use std::ffi::{CString, c_char, c_void};
use std::io::Write;

unsafe extern "C" {
    fn ldpc_toolbox_decoder_ctor(alist_file_path: *const c_char, implementation: *const c_char, puncturing: *const c_char) -> *mut c_void;
    fn ldpc_toolbox_decoder_ctor_alist_string(alist: *const c_char, implementation: *const c_char, puncturing: *const c_char) -> *mut c_void;
    fn ldpc_toolbox_decoder_dtor(decoder: *mut c_void);
    fn ldpc_toolbox_decoder_decode_f64(decoder: *mut c_void, output: *mut u8, output_len: usize, llrs: *const f64, llrs_len: usize, max_iterations: u32) -> i32;
    fn ldpc_toolbox_decoder_decode_f32(decoder: *mut c_void, output: *mut u8, output_len: usize, llrs: *const f32, llrs_len: usize, max_iterations: u32) -> i32;
    fn ldpc_toolbox_encoder_ctor(alist_file_path: *const c_char, puncturing: *const c_char) -> *mut c_void;
    fn ldpc_toolbox_encoder_ctor_alist_string(alist: *const c_char, puncturing: *const c_char) -> *mut c_void;
    fn ldpc_toolbox_encoder_dtor(encoder: *mut c_void);
    fn ldpc_toolbox_encoder_encode(encoder: *mut c_void, output: *mut u8, output_len: usize, input: *const u8, input_len: usize);
}

fn cstr(s: &str) -> CString { CString::new(s.replace('\0', "")).unwrap() }
fn pattern_of(p: &str) -> Option<Vec<bool>> {
    if p.is_empty() { return None; }
    Some(p.split(',').map(|t| t == "1").collect())
}

/// The harness's own, deliberately minimal, notion of a malformed alist (independent of the parser under test): the header declares
/// `ncols` columns but the text ends before the last of the `ncols` column lists (fewer than 4 + ncols lines, blank lines counted).
fn cut_alist(t: &str) -> bool {
    let Some(h) = t.lines().next() else { return false };
    let toks: Vec<&str> = h.split_whitespace().collect();
    if toks.len() != 2 { return false; }
    match (toks[0].parse::<usize>(), toks[1].parse::<usize>()) {
        (Ok(nc), Ok(nr)) if (1..=10000).contains(&nc) && (1..=10000).contains(&nr) => t.lines().count() < 4 + nc,
        _ => false,
    }
}

/// child: executes one scenario; every record is flushed BEFORE the C call it describes ("pre") and after it ("post")
pub fn child(a: &Args) {
    let sc: Value = serde_json::from_str(&std::fs::read_to_string(a.input.as_ref().unwrap()).unwrap()).unwrap();
    let mut f = std::fs::File::create(&a.out).unwrap();
    let mut log = |v: Value| { writeln!(f, "{v}").unwrap(); f.flush().unwrap(); };
    let kind = sc["kind"].as_str().unwrap();
    let via = sc["via"].as_str().unwrap();
    let alist = sc["alist"].as_str().unwrap().to_string();
    let name = sc["name"].as_str().unwrap().to_string();
    let pat = sc["pat"].as_str().unwrap().to_string();
    let path = sc["path"].as_str().unwrap().to_string();
    // references through the public Rust API
    let text = if via == "file" { std::fs::read_to_string(&path).ok() } else { Some(alist.clone()) };
    let href: Option<SparseMatrix> = text.as_ref().and_then(|t| guarded(|| SparseMatrix::from_alist(t).ok()).unwrap_or(None));
    let enc_ref = href.as_ref().and_then(|h| if h.num_rows() >= 1 && h.num_cols() >= h.num_rows() { guarded(|| Encoder::from_h(h).ok()).unwrap_or(None) } else { None });
    // "matrices whose last columns are singular": decided by the harness's own GF(2) elimination, not by the library under test
    let tail_inv = href.as_ref().map(|h| {
        if h.num_rows() >= 1 && h.num_cols() >= h.num_rows() {
            let rows: Vec<Vec<usize>> = (0..h.num_rows()).map(|r| h.iter_row(r).copied().collect()).collect();
            crate::linalg2::inverse_or_kernel(&crate::linalg2::tail(&crate::linalg2::dense(&rows, h.num_cols()))).is_ok()
        } else { false }
    }).unwrap_or(false);
    log(json!({"t": "pre", "op": "ctor", "file_ok": text.is_some(), "ref_alist_ok": href.is_some(), "ref_enc_ok": enc_ref.is_some(), "tail_inv": tail_inv}));
    // raw (possibly non-UTF-8) bytes for a C string argument, when the scenario gives them; the string fields then hold the lossy decoding
    let raw = |key: &str, dflt: &str| -> CString {
        match sc[key].as_array() {
            Some(b) => CString::new(b.iter().map(|x| x.as_u64().unwrap() as u8).filter(|&x| x != 0).collect::<Vec<u8>>()).unwrap(),
            None => cstr(dflt),
        }
    };
    let (cp, cn, ca) = (raw("pat_bytes", &pat), raw("name_bytes", &name), raw("arg_bytes", if via == "file" { &path } else { &alist }));
    let handle = unsafe {
        match (kind, via) {
            ("dec", "file") => ldpc_toolbox_decoder_ctor(ca.as_ptr(), cn.as_ptr(), cp.as_ptr()),
            ("dec", _) => ldpc_toolbox_decoder_ctor_alist_string(ca.as_ptr(), cn.as_ptr(), cp.as_ptr()),
            ("enc", "file") => ldpc_toolbox_encoder_ctor(ca.as_ptr(), cp.as_ptr()),
            _ => ldpc_toolbox_encoder_ctor_alist_string(ca.as_ptr(), cp.as_ptr()),
        }
    };
    log(json!({"t": "post", "op": "ctor", "null": handle.is_null()}));
    if handle.is_null() { return; }
    // a second, independent handle to interleave calls with
    let handle2 = unsafe {
        match (kind, via) {
            ("dec", "file") => ldpc_toolbox_decoder_ctor(ca.as_ptr(), cn.as_ptr(), cp.as_ptr()),
            ("dec", _) => ldpc_toolbox_decoder_ctor_alist_string(ca.as_ptr(), cn.as_ptr(), cp.as_ptr()),
            ("enc", "file") => ldpc_toolbox_encoder_ctor(ca.as_ptr(), cp.as_ptr()),
            _ => ldpc_toolbox_encoder_ctor_alist_string(ca.as_ptr(), cp.as_ptr()),
        }
    };
    let h = match href { Some(h) => h, None => return };
    let pattern = pattern_of(&pat);
    for (idx, op) in sc["ops"].as_array().unwrap().iter().enumerate() {
        let which = if idx % 3 == 2 && !handle2.is_null() { handle2 } else { handle };
        if kind == "dec" {
            let llrs: Vec<f64> = op["llrs"].as_array().unwrap().iter().map(|x| x.as_f64().unwrap()).collect();
            let f32call = op["f32"].as_bool().unwrap();
            let out_len = op["out_len"].as_u64().unwrap() as usize;
            let limit = op["limit"].as_u64().unwrap() as u32;
            let l32: Vec<f32> = llrs.iter().map(|&x| x as f32).collect();
            let seen: Vec<f64> = if f32call { l32.iter().map(|&x| f64::from(x)).collect() } else { llrs.clone() };
            // reference: fresh Rust decoder on the depunctured LLRs
            let reference = guarded(|| {
                let dep = match &pattern { Some(p) => Puncturer::new(p).depuncture(&seen).map_err(|e| e.to_string())?, None => seen.clone() };
                let mut d = build(&name, h.clone()).ok_or("name")?;
                Ok::<_, String>(result_json(&d.decode(&dep, limit as usize)))
            });
            let refj = match reference { Ok(Ok(r)) => r, _ => json!({"verdict": "none", "word": [], "iters": 0}) };
            log(json!({"t": "pre", "op": "decode", "idx": idx, "f32": f32call, "out_len": out_len, "limit": limit, "ref": refj, "handle": if which == handle { 1 } else { 2 }}));
            let mut out = vec![7u8; out_len];
            let ret = unsafe {
                if f32call { ldpc_toolbox_decoder_decode_f32(which, out.as_mut_ptr(), out_len, l32.as_ptr(), l32.len(), limit) }
                else { ldpc_toolbox_decoder_decode_f64(which, out.as_mut_ptr(), out_len, llrs.as_ptr(), llrs.len(), limit) }
            };
            log(json!({"t": "post", "op": "decode", "idx": idx, "ret": ret, "out": out}));
        } else {
            let bits: Vec<u8> = op["bits"].as_array().unwrap().iter().map(|x| x.as_u64().unwrap() as u8).collect();
            let reference = guarded(|| {
                let enc = enc_ref.as_ref().ok_or("enc")?;
                let cw = enc.encode(&Array1::from_iter(bits.iter().map(|&b| if b == 1 { GF2::one() } else { GF2::zero() })));
                let cw = match &pattern { Some(p) => Puncturer::new(p).puncture(&cw).map_err(|e| e.to_string())?, None => cw };
                Ok::<_, String>(cw.iter().map(|x| if x.is_one() { 1u8 } else { 0u8 }).collect::<Vec<u8>>())
            });
            let mut refv = match reference { Ok(Ok(r)) => r, _ => vec![] };
            let nonbit = bits.iter().any(|&b| b > 1);
            if nonbit {
                // bytes other than 0/1: their meaning is the wrapper's business, but the answer may not depend on earlier calls on this
                // handle ("repeated calls on one handle are independent"): the reference is a FRESH handle given the same buffer
                log(json!({"t": "pre", "op": "fresh", "idx": idx}));
                let fresh = unsafe { if via == "file" { ldpc_toolbox_encoder_ctor(ca.as_ptr(), cp.as_ptr()) } else { ldpc_toolbox_encoder_ctor_alist_string(ca.as_ptr(), cp.as_ptr()) } };
                let mut fo = vec![7u8; refv.len()];
                if !fresh.is_null() { unsafe { ldpc_toolbox_encoder_encode(fresh, fo.as_mut_ptr(), fo.len(), bits.as_ptr(), bits.len()); ldpc_toolbox_encoder_dtor(fresh); } }
                log(json!({"t": "post", "op": "fresh", "idx": idx}));
                refv = fo;
            }
            log(json!({"t": "pre", "op": "encode", "idx": idx, "ref": refv, "bits": bits, "nonbit": nonbit, "handle": if which == handle { 1 } else { 2 }}));
            let mut out = vec![7u8; refv.len()];
            unsafe { ldpc_toolbox_encoder_encode(which, out.as_mut_ptr(), out.len(), bits.as_ptr(), bits.len()) };
            log(json!({"t": "post", "op": "encode", "idx": idx, "out": out}));
        }
    }
    unsafe {
        if kind == "dec" { ldpc_toolbox_decoder_dtor(handle); if !handle2.is_null() { ldpc_toolbox_decoder_dtor(handle2); } }
        else { ldpc_toolbox_encoder_dtor(handle); if !handle2.is_null() { ldpc_toolbox_encoder_dtor(handle2); } }
    }
    log(json!({"t": "post", "op": "dtor"}));
}

fn run_scenario(out: &mut Out, sc: &Value, work: &str, idx: usize) {
    out.new_case();
    let cfgp = format!("{work}/c19-{idx}.json");
    let resp = format!("{work}/c19-{idx}.out");
    std::fs::write(&cfgp, sc.to_string()).unwrap();
    let _ = std::fs::remove_file(&resp);
    let exe = std::env::current_exe().unwrap();
    let st = std::process::Command::new("timeout").arg("30").arg(exe).args(["capichild", "C19", "--in", &cfgp, "--out", &resp])
        .stdout(std::process::Stdio::null()).stderr(std::process::Stdio::null()).status();
    let clean = matches!(&st, Ok(s) if s.success());
    let lines: Vec<Value> = std::fs::read_to_string(&resp).unwrap_or_default().lines().filter_map(|l| serde_json::from_str(l).ok()).collect();
    let _ = std::fs::remove_file(&cfgp);
    let _ = std::fs::remove_file(&resp);
    let hpar = sc["alist"].as_str().and_then(|t| guarded(|| SparseMatrix::from_alist(t).ok()).unwrap_or(None));
    let (hrows, hn): (Vec<Vec<usize>>, usize) = match (&hpar, sc["kind"].as_str()) {
        (Some(h), Some("enc")) if h.num_rows() <= 14 => ((0..h.num_rows()).map(|r| { let mut v: Vec<usize> = h.iter_row(r).copied().collect(); v.sort_unstable(); v }).collect(), h.num_cols()),
        _ => (vec![], 0),
    };
    let base = json!({"kind": sc["kind"], "via": sc["via"], "name": sc["name"], "pat": sc["pat"], "why": sc["why"], "hrows": hrows, "hn": hn,
        "cut": sc["via"] == "string" && sc["alist"].as_str().map(cut_alist).unwrap_or(false),
        "pat_tokens": if sc["pat"].as_str().unwrap().is_empty() { vec![] } else { sc["pat"].as_str().unwrap().split(',').map(|s| s.to_string()).collect::<Vec<_>>() }});
    let mut k = 0;
    while k < lines.len() {
        let pre = &lines[k];
        let post = lines.get(k + 1).filter(|p| p["t"] == "post" && p["op"] == pre["op"]);
        let op = pre["op"].as_str().unwrap_or("");
        if pre["t"] == "post" && op == "dtor" { k += 1; continue; }
        if op == "fresh" && post.is_some() { k += 2; continue; }      // the fresh-handle reference call itself (an abort there is reported below)
        let mut ev = base.clone();
        for (kk, v) in pre.as_object().unwrap() { ev[kk] = v.clone(); }
        match post {
            Some(p) => { for (kk, v) in p.as_object().unwrap() { ev[kk] = v.clone(); } out.ev(match op { "ctor" => "Ctor", "decode" => "Decode", _ => "Encode" }, "ok", ev); k += 2; }
            None => { out.ev(match op { "ctor" => "Ctor", "decode" => "Decode", _ => "Encode" }, "abort", ev); return; }
        }
    }
    if !clean && lines.is_empty() { out.ev("Ctor", "abort", base); }
}

pub fn generate(a: &Args) {
    let mut out = Out::create(&a.out);
    let mut rng = Rng::new(a.seed ^ 0xC19);
    let th = is_thorough(a);
    let work = std::path::Path::new(&a.out).parent().unwrap().to_str().unwrap().to_string();
    let mut scs: Vec<Value> = vec![];
    let pats = ["", "1,1,0,1", "1,0,1", "1,1,1,0", "1,1"];
    // valid decoders: every name, through file or string, with and without puncturing
    let reps = if th { 25 } else { 1 };
    for rep in 0..reps { for (i, name) in NAMES.iter().enumerate() {
        let (rows, n) = random_code(&mut rng, i + rep, 5, 12);
        let h = matrix(&rows, n);
        let pat = pats[(i + rep) % pats.len()];
        let pat = match pattern_of(pat) { Some(p) if n % p.len() != 0 || !p.iter().any(|&b| b) => "", _ => pat };
        let ntx = match pattern_of(pat) { Some(p) => n / p.len() * p.iter().filter(|&&b| b).count(), None => n };
        let alist = if i % 2 == 0 { h.alist() } else { h.alist_no_padding() };
        let path = format!("{work}/c19-alist-{i}-{rep}.alist");
        if i % 3 == 0 { std::fs::write(&path, &alist).unwrap(); }
        let ops: Vec<Value> = (0..6).map(|t| {
            let mut llrs = llr_vector(&mut rng, ntx, i + t);
            if t % 2 == 1 { llrs = llrs.iter().map(|&x| (x as f32) as f64).collect(); }
            let out_len = [0, n - rows.len().min(n), n, n / 2, 1, n][t % 6];
            let limit = [0u32, 1, 5, 20, 3, 50][(t + i) % 6];
            json!({"llrs": llrs, "f32": t % 2 == 1, "out_len": out_len, "limit": limit})
        }).collect();
        scs.push(json!({"kind": "dec", "via": if i % 3 == 0 { "file" } else { "string" }, "alist": alist, "name": name, "pat": pat, "path": path, "ops": ops, "why": "valid"}));
    } }
    // valid encoders
    for i in 0..(if th { 60 } else { 16 }) {
        let ncw = [12usize, 24, 18, 30][i % 4];
        let r = ncw / 3;
        let rows = systematic_code(ncw, r, 100 + i as u64);
        let h = matrix(&rows, ncw);
        let pat = pats[i % pats.len()];
        let pat = match pattern_of(pat) { Some(p) if ncw % p.len() != 0 => "", _ => pat };
        let path = format!("{work}/c19-enc-{i}.alist");
        if i % 2 == 0 { std::fs::write(&path, h.alist()).unwrap(); }
        let ops: Vec<Value> = (0..6).map(|t| json!({"bits": (0..ncw - r).map(|_| {
            let b = (rng.next() & 1) as u8;
            // from the third call on, some bytes are neither 0 nor 1 (after calls that left ones everywhere)
            if t >= 2 && rng.coin(1, 4) { [2u8, 255, 3, 128][rng.below(4)] } else if t == 1 { 1 } else { b }
        }).collect::<Vec<_>>()})).collect();
        scs.push(json!({"kind": "enc", "via": if i % 2 == 0 { "file" } else { "string" }, "alist": h.alist(), "name": "", "pat": pat, "path": path, "ops": ops, "why": "valid"}));
    }
    // encoders on codes whose parity part is not triangular (pivoting) and on near-staircases (ones just ABOVE the diagonal too)
    for i in 0..(if th { 40 } else { 12 }) {
        let (ncw, r) = [(12usize, 4usize), (9, 3), (15, 5)][i % 3];
        let k = ncw - r;
        let rows: Vec<Vec<usize>> = if i % 2 == 0 { crate::bersup::pivoting_code(ncw, r, 700 + i as u64) } else {
            // systematic part of a systematic_code + a banded tail: diagonal, and for each j either the entry below or the one above
            let base_rows = systematic_code(ncw, r, 800 + i as u64);
            (0..r).map(|j| {
                let mut row: Vec<usize> = base_rows[j].iter().copied().filter(|&c| c < k).collect();
                row.push(k + j);
                if (i / 2 + j) % 2 == 0 { if j + 1 < r { row.push(k + j + 1); } } else if j > 0 { row.push(k + j - 1); }
                row.sort_unstable(); row.dedup(); row
            }).collect()
        };
        let h = matrix(&rows, ncw);
        let pat = pats[i % pats.len()];
        let pat = match pattern_of(pat) { Some(p) if ncw % p.len() != 0 => "", _ => pat };
        let ops: Vec<Value> = (0..4).map(|_| json!({"bits": (0..k).map(|_| (rng.next() & 1) as u8).collect::<Vec<_>>()})).collect();
        scs.push(json!({"kind": "enc", "via": "string", "alist": h.alist(), "name": "", "pat": pat, "path": "", "ops": ops, "why": "valid-or-singular"}));
    }
    // constructor failures
    let good = matrix(&random_code(&mut rng, 3, 4, 8).0, 8);
    let good_alist = { let (rows, n) = random_code(&mut rng, 5, 4, 8); matrix(&rows, n).alist() };
    let _ = good;
    let mut bad_alists: Vec<String> = vec!["".into(), "2 2\n1 1\n1 1\n1 1\n3\n1\n1\n2\n".into(), "x y\n".into(), "3 2\n1 1\n".into(), "2 2\n1 1\n1 1\n1 1\n1 x\n2\n".into(), "1 1\n1 1\n1\n1\n2\n1\n".into()];
    for _ in 0..(if th { 200 } else { 30 }) { bad_alists.push(c08::mutate_pub(&mut rng, &good_alist)); }
    // texts CUT inside the column section (a file copied incompletely): the header promises more column lists than the text holds
    for (j, src) in [good_alist.clone(), matrix(&systematic_code(12, 4, 9), 12).alist()].iter().enumerate() {
        let ls: Vec<&str> = src.lines().collect();
        let nc: usize = ls[0].split_whitespace().next().unwrap().parse().unwrap();
        for keep in 4..4 + nc {
            if !(th || (keep + j) % 2 == 0 || keep == 3 + nc) { continue; }
            let t = ls[..keep].join("\n");
            bad_alists.push(if keep % 2 == 0 { t + "\n" } else { t });
        }
    }
    for (i, t) in bad_alists.iter().enumerate() {
        // outside the property's domain (C02: r >= 1 and n >= r): a text that PARSES to a matrix with more rows than
        // columns makes Encoder::from_h underflow; such texts are only given to the decoder constructor
        let wide_ok = SparseMatrix::from_alist(t).map(|h| h.num_rows() >= 1 && h.num_cols() >= h.num_rows()).unwrap_or(true);
        if i % 2 == 1 && !wide_ok { scs.push(json!({"kind": "dec", "via": "string", "alist": t, "name": "Phif64", "pat": "", "path": "", "ops": [], "why": "alist"})); continue; }
        scs.push(json!({"kind": if i % 2 == 0 { "dec" } else { "enc" }, "via": "string", "alist": t, "name": "Phif64", "pat": "", "path": "", "ops": [], "why": "alist"}));
    }
    for bad in ["phif64", "HLPHIF64", "", "Phif64 ", "HLMinstarapproxi8Jones", "Phif65", "HLAminstari8Deg1Clip", "hlPhif64", "Tanh", "Aminstarf64x"] {
        scs.push(json!({"kind": "dec", "via": "string", "alist": good_alist, "name": bad, "pat": "", "path": "", "ops": [], "why": "name"}));
    }
    for bad in ["1,,0", "2", "1, 0", "1,0,", ",", "a", "1;0", " 1", "01", "1,1,x", "true,false"] {
        scs.push(json!({"kind": "dec", "via": "string", "alist": good_alist, "name": "Phif64", "pat": bad, "path": "", "ops": [], "why": "pattern"}));
        scs.push(json!({"kind": "enc", "via": "string", "alist": matrix(&systematic_code(12, 4, 9), 12).alist(), "name": "", "pat": bad, "path": "", "ops": [], "why": "pattern"}));
    }
    // C strings that are not valid UTF-8 (the string fields hold the lossy decoding, which is what a faithful wrapper sees at best)
    let enc_alist = matrix(&systematic_code(12, 4, 9), 12).alist();
    for bad in [&b"1,1,\xff"[..], &b"1,\x80,0"[..], &b"\xff"[..], &b"1,0\xc3"[..], &b"\xc0\xaf"[..], &b"1,1,0,1\xfe"[..]] {
        let lossy = String::from_utf8_lossy(bad).to_string();
        scs.push(json!({"kind": "dec", "via": "string", "alist": good_alist, "name": "Phif64", "pat": lossy, "pat_bytes": bad, "path": "", "ops": [], "why": "pattern"}));
        scs.push(json!({"kind": "enc", "via": "string", "alist": enc_alist, "name": "", "pat": lossy, "pat_bytes": bad, "path": "", "ops": [], "why": "pattern"}));
    }
    for bad in [&b"Phif64\xff"[..], &b"\xffPhif64"[..], &b"\xff"[..], &b"HL\x80Phif64"[..]] {
        let lossy = String::from_utf8_lossy(bad).to_string();
        scs.push(json!({"kind": "dec", "via": "string", "alist": good_alist, "name": lossy, "name_bytes": bad, "pat": "", "path": "", "ops": [], "why": "name"}));
    }
    for k in 0..4usize {
        // one digit of a good alist replaced by an invalid byte
        let mut b = good_alist.clone().into_bytes();
        let digits: Vec<usize> = b.iter().enumerate().filter(|(_, c)| c.is_ascii_digit() && **c != b'0').map(|(i, _)| i).collect();
        let pos = digits[(k * 7 + 1) % digits.len()];
        b[pos] = [0xffu8, 0x80, 0xc3, 0xfe][k];
        let lossy = String::from_utf8_lossy(&b).to_string();
        scs.push(json!({"kind": if k % 2 == 0 { "dec" } else { "enc" }, "via": "string", "alist": lossy, "arg_bytes": b, "name": "Phif64", "pat": "", "path": "", "ops": [], "why": "alist"}));
    }
    // files that are not valid UTF-8, with the invalid bytes in lines the parser skips (maximum weights, weight lists, row lists,
    // a trailer) or in one it reads: not text, hence not an alist
    for (k, region) in ["maxw", "colw", "rows", "trailer", "cols"].iter().enumerate() {
        let mut lines: Vec<Vec<u8>> = good_alist.split('\n').map(|l| l.as_bytes().to_vec()).collect();
        let nl = lines.len();
        let target = match *region { "maxw" => 1, "colw" => 2, "rows" => nl.saturating_sub(2), "trailer" => nl - 1, _ => 4 };
        match *region { "trailer" => lines[target].extend_from_slice(b"\xff\xfe"), _ => { lines[target].push(b' '); lines[target].push([0xffu8, 0x80, 0xc3][k % 3]); } }
        let bytes: Vec<u8> = lines.join(&b'\n');
        let path = format!("{work}/c19-nonutf8-{region}.alist");
        std::fs::write(&path, &bytes).unwrap();
        for kind in ["dec", "enc"] {
            scs.push(json!({"kind": kind, "via": "file", "alist": "", "name": "Phif64", "pat": "", "path": path, "ops": [], "why": "file"}));
        }
    }
    for p in [format!("{work}/does-not-exist.alist"), work.clone(), "".to_string(), "/proc/self/mem".to_string()] {
        scs.push(json!({"kind": "dec", "via": "file", "alist": "", "name": "Phif64", "pat": "", "path": p, "ops": [], "why": "file"}));
        scs.push(json!({"kind": "enc", "via": "file", "alist": "", "name": "", "pat": "", "path": p, "ops": [], "why": "file"}));
    }
    // encoder: singular last columns
    for i in 0..(if th { 30 } else { 8 }) {
        let (mut rows, n) = (systematic_code(12, 4, 50 + i), 12usize);
        // a singular tail (columns 8..11), three ways: two equal columns at its start, two equal columns at its END (the dependency only
        // shows at the last pivot), an all-zero last column
        match i % 3 {
            0 => for r in rows.iter_mut() { let has8 = r.contains(&8); r.retain(|&c| c != 9); if has8 { r.push(9); r.sort_unstable(); } },
            1 => for r in rows.iter_mut() { let has10 = r.contains(&10); r.retain(|&c| c != 11); if has10 { r.push(11); r.sort_unstable(); } },
            _ => for r in rows.iter_mut() { r.retain(|&c| c != 11); },
        }
        scs.push(json!({"kind": "enc", "via": "string", "alist": matrix(&rows, n).alist(), "name": "", "pat": "", "path": "", "ops": [], "why": "singular"}));
    }
    for (idx, sc) in scs.iter().enumerate() { run_scenario(&mut out, sc, &work, idx); }
    for e in std::fs::read_dir(&work).unwrap().flatten() { let n = e.file_name().to_string_lossy().to_string(); if n.starts_with("c19-") { let _ = std::fs::remove_file(e.path()); } }
    out.finish();
}
