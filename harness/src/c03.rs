//! C03: the real generic decoders (flooding::Decoder<A>, horizontal_layered::Decoder<A>) driven with
//! checker-supplied arithmetics:
//!  * IntMinSum — exact integer min-sum whose four value types use DIFFERENT internal scalings (x3, x5, x7), so a
//!    decoder that routes a value through the wrong conversion, or mixes message kinds, panics or changes results;
//!  * Forced<A> — pass-through wrapper around a real sum-product arithmetic that keeps the decoder iterating to
//!    the limit and records the per-variable LLRs, for the posterior clause on forests.
use crate::arith::{Num, cb};
use crate::decoders::*;
use crate::util::*;
use ldpc_toolbox::decoder::arithmetic::*;
use ldpc_toolbox::decoder::{LdpcDecoder, Message, SentMessage, flooding, horizontal_layered};
use serde_json::json;
use std::cell::{Cell, RefCell};

#[derive(Debug, Copy, Clone, Default, PartialEq)]
pub struct VM(i64); // variable-to-check message, stored x3
#[derive(Debug, Copy, Clone, Default, PartialEq)]
pub struct CM(i64); // check-to-variable message, stored x5
#[derive(Debug, Copy, Clone, Default, PartialEq)]
pub struct VL(i64); // layered variable LLR, stored x7

fn un(x: i64, k: i64) -> i64 {
    assert!(x % k == 0, "value with the wrong scaling reached the arithmetic");
    x / k
}

#[derive(Debug, Clone, Default)]
pub struct IntMinSum;

fn minsum(vals: &[i64], skip: usize) -> i64 {
    let mut neg = false;
    let mut mag: Option<i64> = None;
    for (j, &x) in vals.iter().enumerate() {
        if j == skip { continue; }
        if x < 0 { neg = !neg; }
        mag = Some(mag.map_or(x.abs(), |m| m.min(x.abs())));
    }
    let m = mag.unwrap_or(1000); // MinSum.tla BigMag: a check of degree one says "this bit is 0"
    if neg { -m } else { m }
}

impl DecoderArithmetic for IntMinSum {
    type Llr = i64;
    type CheckMessage = CM;
    type VarMessage = VM;
    type VarLlr = VL;
    fn input_llr_quantize(&self, llr: f64) -> i64 { llr.round() as i64 }
    fn llr_hard_decision(&self, llr: i64) -> bool { llr <= 0 }
    fn llr_to_var_message(&self, llr: i64) -> VM { VM(3 * llr) }
    fn llr_to_var_llr(&self, llr: i64) -> VL { VL(7 * llr) }
    fn var_llr_to_llr(&self, v: VL) -> i64 { un(v.0, 7) }
    fn send_check_messages<F>(&mut self, var_messages: &[Message<VM>], mut send: F)
    where F: FnMut(SentMessage<CM>) {
        let vals: Vec<i64> = var_messages.iter().map(|m| un(m.value.0, 3)).collect();
        for (i, m) in var_messages.iter().enumerate() {
            send(SentMessage { dest: m.source, value: CM(5 * minsum(&vals, i)) });
        }
    }
    fn send_var_messages<F>(&mut self, input_llr: i64, check_messages: &[Message<CM>], mut send: F) -> i64
    where F: FnMut(SentMessage<VM>) {
        let total: i64 = input_llr + check_messages.iter().map(|m| un(m.value.0, 5)).sum::<i64>();
        for m in check_messages {
            send(SentMessage { dest: m.source, value: VM(3 * (total - un(m.value.0, 5))) });
        }
        total
    }
    fn update_check_messages_and_vars(&mut self, check_messages: &mut [SentMessage<CM>], vars: &mut [VL]) {
        let ext: Vec<i64> = check_messages.iter().map(|m| un(vars[m.dest].0, 7) - un(m.value.0, 5)).collect();
        for (i, m) in check_messages.iter_mut().enumerate() {
            let new = minsum(&ext, i);
            m.value = CM(5 * new);
            vars[m.dest] = VL(7 * (ext[i] + new));
        }
    }
}

/// Pass-through wrapper: never lets the syndrome test succeed and records LLRs.
#[derive(Debug)]
pub struct Forced<A: DecoderArithmetic> {
    inner: A,
    first: Cell<bool>,
    /// flooding: (input llr, returned llr) of every send_var_messages call, in call order
    pub var_calls: std::sync::Arc<std::sync::Mutex<Vec<(f64, f64)>>>,
    /// layered: the whole variable vector after every layer
    pub layer_vars: std::sync::Arc<std::sync::Mutex<Vec<f64>>>,
    /// number of send_var_messages (flooding) / update_check_messages_and_vars (layered) calls seen: message-passing work done
    pub work: std::sync::Arc<std::sync::Mutex<(usize, usize)>>,
    _pd: RefCell<()>,
}
unsafe impl<A: DecoderArithmetic> Send for Forced<A> {}

impl<A: DecoderArithmetic> DecoderArithmetic for Forced<A>
where A::Llr: Num, A::VarLlr: Num {
    type Llr = A::Llr;
    type CheckMessage = A::CheckMessage;
    type VarMessage = A::VarMessage;
    type VarLlr = A::VarLlr;
    fn input_llr_quantize(&self, llr: f64) -> A::Llr { self.inner.input_llr_quantize(llr) }
    fn llr_hard_decision(&self, _llr: A::Llr) -> bool {
        // first call after any message-passing work answers "1", all later ones "0": whichever variable is asked first becomes the
        // only one of the word, and every check it belongs to has odd parity (the graphs used have no isolated variable), so the
        // decoder keeps iterating up to the limit. How often and in which order a decoder asks is NOT specified: the number of
        // rounds really run is counted (`work`) and reported, and the posterior clause is only judged when it reached the diameter.
        if self.first.get() { self.first.set(false); true } else { false }
    }
    fn llr_to_var_message(&self, llr: A::Llr) -> A::VarMessage { self.inner.llr_to_var_message(llr) }
    fn llr_to_var_llr(&self, llr: A::Llr) -> A::VarLlr { self.inner.llr_to_var_llr(llr) }
    fn var_llr_to_llr(&self, v: A::VarLlr) -> A::Llr { self.inner.var_llr_to_llr(v) }
    fn send_check_messages<F>(&mut self, var_messages: &[Message<A::VarMessage>], send: F)
    where F: FnMut(SentMessage<A::CheckMessage>) {
        self.first.set(true);
        self.inner.send_check_messages(var_messages, send)
    }
    fn send_var_messages<F>(&mut self, input_llr: A::Llr, check_messages: &[Message<A::CheckMessage>], send: F) -> A::Llr
    where F: FnMut(SentMessage<A::VarMessage>) {
        self.first.set(true);
        let r = self.inner.send_var_messages(input_llr, check_messages, send);
        self.var_calls.lock().unwrap().push((input_llr.to_f64(), r.to_f64()));
        self.work.lock().unwrap().0 += 1;
        r
    }
    fn update_check_messages_and_vars(&mut self, check_messages: &mut [SentMessage<A::CheckMessage>], vars: &mut [A::VarLlr]) {
        self.first.set(true);
        self.inner.update_check_messages_and_vars(check_messages, vars);
        *self.layer_vars.lock().unwrap() = vars.iter().map(|v| v.to_f64()).collect();
        self.work.lock().unwrap().1 += 1;
    }
}

fn forced<A: DecoderArithmetic>(inner: A) -> Forced<A> {
    Forced { inner, first: Cell::new(true), var_calls: Default::default(), layer_vars: Default::default(), work: Default::default(), _pd: RefCell::new(()) }
}

/// random forest with check degree >= 2: grow from a variable, attaching checks with fresh variables
pub fn random_forest(rng: &mut Rng, max_checks: usize, max_vars: usize) -> (Vec<Vec<usize>>, usize) {
    let mut rows: Vec<Vec<usize>> = vec![];
    let mut n = 1usize;
    let target = 1 + rng.below(max_checks);
    while rows.len() < target && n + 1 <= max_vars {
        // new check attached to an existing variable (or starting a new component)
        let anchor = if rng.coin(1, 8) && n + 2 <= max_vars { n += 1; n - 1 } else { rng.below(n) };
        let extra = (1 + rng.below(3)).min(max_vars - n);
        if extra == 0 { break; }
        let mut row = vec![anchor];
        for _ in 0..extra { row.push(n); n += 1; }
        rng.shuffle(&mut row);
        rows.push(row);
    }
    if rows.is_empty() { rows.push(vec![0, 1]); n = 2; }
    (rows, n)
}

fn posterior(rows: &[Vec<usize>], n: usize, llrs: &[f64]) -> Vec<f64> {
    // brute force over all codewords: LLR_v = ln sum_{x in C, x_v=0} e^{-cost(x)} - ln sum_{x_v=1} e^{-cost(x)}, cost = sum x_i llr_i
    let mut acc0 = vec![f64::NEG_INFINITY; n];
    let mut acc1 = vec![f64::NEG_INFINITY; n];
    let lse = |a: f64, b: f64| { let m = a.max(b); if m == f64::NEG_INFINITY { m } else { m + ((a - m).exp() + (b - m).exp()).ln() } };
    for x in 0u32..(1u32 << n) {
        let w: Vec<u8> = (0..n).map(|i| ((x >> i) & 1) as u8).collect();
        if !syndrome_zero(rows, &w) { continue; }
        let cost: f64 = (0..n).map(|i| w[i] as f64 * llrs[i]).sum();
        for v in 0..n {
            if w[v] == 0 { acc0[v] = lse(acc0[v], -cost); } else { acc1[v] = lse(acc1[v], -cost); }
        }
    }
    (0..n).map(|v| acc0[v] - acc1[v]).collect()
}

fn post_event<A: DecoderArithmetic + 'static>(out: &mut Out, name: &str, mk: fn() -> A, layered: bool, rows: &[Vec<usize>], n: usize, llrs: &[f64], its: usize)
where A::Llr: Num, A::VarLlr: Num {
    out.new_case();
    let f32t = name.ends_with("f32");
    let seen: Vec<f64> = llrs.iter().map(|&x| if f32t { x as f32 as f64 } else { x }).collect();
    let reference = posterior(rows, n, &seen);
    let res = guarded(|| {
        let ar = forced(mk());
        let vc = ar.var_calls.clone();
        let lv = ar.layer_vars.clone();
        let wk = ar.work.clone();
        let h = matrix(rows, n);
        if layered {
            let mut d = horizontal_layered::Decoder::new(h, ar);
            let _ = d.decode(&seen, its);
            (lv.lock().unwrap().clone(), wk.lock().unwrap().1 / rows.len().max(1))
        } else {
            let mut d = flooding::Decoder::new(h, ar);
            let _ = d.decode(&seen, its);
            // last n calls = last iteration; identify the variable by its (distinct) channel LLR
            let calls = vc.lock().unwrap().clone();
            let last: Vec<(f64, f64)> = calls[calls.len().saturating_sub(n)..].to_vec();
            (seen.iter().map(|&x| last.iter().find(|c| c.0 == x).map(|c| c.1).unwrap_or(f64::NAN)).collect(), wk.lock().unwrap().0 / n.max(1))
        }
    });
    let sched = if layered { "layered" } else { "flooding" };
    match res {
        Err(m) => out.ev("Post", "panic", json!({"arith": name, "sched": sched, "rows": rows, "n": n, "msg": m})),
        Ok((got, rounds)) => {
            let got: Vec<f64> = got;
            let errs: Vec<i64> = (0..n).map(|v| cb(got.get(v).copied().unwrap_or(f64::NAN) - reference[v])).collect();
            let refc: Vec<i64> = reference.iter().map(|r| r.abs().ceil().min(1e6) as i64).collect();
            let maxdeg = rows.iter().map(|r| r.len()).max().unwrap_or(2);
            out.ev("Post", "ok", json!({"arith": name, "sched": sched, "f32": f32t, "rows": rows, "n": n, "its": its, "len": got.len(),
                "err_cb": errs, "refc": refc, "maxdeg": maxdeg, "rounds": rounds, "diam": graph_diameter(rows, n),
                "llr_m": seen.iter().map(|x| (x * 1000.0).round() as i64).collect::<Vec<_>>()}));
        }
    }
}

fn graph_diameter(rows: &[Vec<usize>], n: usize) -> usize {
    // diameter of the Tanner graph (in edges), by BFS from every variable; components handled separately
    let nr = rows.len();
    let mut adj: Vec<Vec<usize>> = vec![vec![]; nr + n];
    for (c, r) in rows.iter().enumerate() { for &v in r { adj[c].push(nr + v); adj[nr + v].push(c); } }
    let mut best = 0;
    for s in 0..nr + n {
        let mut dist = vec![usize::MAX; nr + n];
        dist[s] = 0;
        let mut q = std::collections::VecDeque::from([s]);
        while let Some(u) = q.pop_front() {
            for &w in &adj[u] { if dist[w] == usize::MAX { dist[w] = dist[u] + 1; best = best.max(dist[w]); q.push_back(w); } }
        }
    }
    best
}

pub fn generate(a: &Args) {
    let mut out = Out::create(&a.out);
    let mut rng = Rng::new(a.seed ^ 0xC03);
    let th = is_thorough(a);
    // (1) results of the real generic decoders with the checker-supplied exact arithmetic
    let n1 = if th { 30000 } else { 1500 };
    for i in 0..n1 {
        let (mut rows, n) = match i % 4 {
            0 => random_forest(&mut rng, 6, 10),
            1 => random_code(&mut rng, i, 4, 7),
            _ => random_code(&mut rng, i, 6, 12),
        };
        // C03 quantifies over ALL matrices: checks of degree one (and zero) as well
        if i % 5 == 3 { let r = rng.below(rows.len()); rows[r].truncate(1); }
        if i % 17 == 11 { let r = rng.below(rows.len()); rows[r].clear(); }
        let span = [2i64, 5, 9, 40][i % 4];
        // integers, quarters (the quantiser rounds them; tiny positive values become the working value 0), and all-positive
        // small quarters (the all-zero word is a codeword: the zero-iteration exit must be taken on the CHANNEL signs)
        let draw = |rng: &mut Rng, cls: usize| -> Vec<f64> { match cls % 6 {
            0 | 3 => (0..n).map(|_| rng.range(-span, span) as f64).collect(),
            2 => (0..n).map(|_| *rng.pick(&[1i64, 1, 2, 3, 5, 8, 40]) as f64 / 4.0).collect(),
            _ => (0..n).map(|_| rng.range(-4 * span, 4 * span) as f64 / 4.0).collect(),
        } };
        let llrs: Vec<f64> = draw(&mut rng, i);
        let limit = [0usize, 1, 2, 3, 4, 6, 10][i % 7];
        // ONE decoder object per schedule for a short history of calls (objects are long-lived in real use);
        // every call is judged against the textbook result on its own arguments
        let calls = 1 + i % 4;
        for layered in [false, true] {
            let sched = if layered { "layered" } else { "flooding" };
            let mut fl = guarded(|| flooding::Decoder::new(matrix(&rows, n), IntMinSum)).ok();
            let mut hl = guarded(|| horizontal_layered::Decoder::new(matrix(&rows, n), IntMinSum)).ok();
            let mut rng2 = Rng::new(rng.next());
            for cidx in 0..calls {
                let llrs: Vec<f64> = if cidx == 0 { llrs.clone() } else { draw(&mut rng2, i + cidx) };
                let limit = if cidx == 0 { limit } else { [0usize, 1, 2, 3, 4, 6, 10][(i + cidx) % 7] };
                // TLC computes the textbook values in 32-bit integers: with repeated checks the exact integer messages grow like
                // (column weight + 1)^iterations, so the limit of such a case is lowered until the a-priori bound fits (the real
                // decoder's 64-bit run would be fine; runaway float messages are C01's business)
                let dv = (0..n).map(|v| rows.iter().filter(|r| r.contains(&v)).count()).max().unwrap_or(0) as f64;
                let l4 = llrs.iter().fold(1.0f64, |m, x| m.max((4.0 * x).abs()));
                let mut limit = limit;
                while limit > 0 && l4 * (dv + 1.0).powi(limit as i32) > (1u64 << 26) as f64 { limit -= 1; }
                out.new_case();
                let res = guarded(|| {
                    if layered { hl.as_mut().expect("ctor").decode(&llrs, limit) } else { fl.as_mut().expect("ctor").decode(&llrs, limit) }
                });
                let li: Vec<i64> = llrs.iter().map(|&x| (4.0 * x).round() as i64).collect();   // quarters
                match res {
                    Ok(r) => {
                        let rj = result_json(&r);
                        out.ev("Decode", "ok", json!({"sched": sched, "rows": rows, "n": n, "llrs": li, "limit": limit, "call": cidx,
                            "verdict": rj["verdict"], "word": rj["word"], "iters": rj["iters"]}));
                    }
                    Err(m) => out.ev("Decode", "panic", json!({"sched": sched, "rows": rows, "n": n, "llrs": li, "limit": limit, "call": cidx, "msg": m})),
                }
            }
        }
    }
    // (1b) the twenty built-in 8-bit decoders, factory-built, on LLRs of the 1/8 grid (x8 = 8*llr is an integer, so the
    // quantiser involves no rounding): TLC predicts the full result from BP.tla composed with Arith.tla (BP8.tla)
    let names8: Vec<&str> = NAMES.iter().copied().filter(|n| n.contains("i8")).collect();
    let n8 = if th { 1200 } else { 40 };
    for name in names8.iter() {
        let hl = name.starts_with("HL");
        let arith = if hl { &name[2..] } else { name };
        for i in 0..n8 {
            let (rows, n) = if i % 3 == 0 { random_forest(&mut rng, 5, 9) } else { random_code(&mut rng, i, 5, 9) };
            // the 8-bit check rules fold their inputs in adjacency-list order and are not associative (table rounding,
            // clamp at 0, first minimum): the model is given the rows in the order the matrix actually stores them
            let hm = matrix(&rows, n);
            let rows: Vec<Vec<usize>> = (0..hm.num_rows()).map(|r| hm.iter_row(r).copied().collect()).collect();
            let mut dec = match guarded(|| build(name, hm.clone()).expect("name")) { Ok(d) => d, Err(_) => continue };
            for call in 0..3 {
                let span = [12i64, 60, 130, 200][(i + call) % 4];
                let x8: Vec<i64> = (0..n).map(|_| match (i + call) % 5 { 0 => *rng.pick(&[127i64, -127, 116, -116, 117, -117, 100, -100, 99, 0]), _ => rng.range(-span, span) }).collect();
                let llrs: Vec<f64> = x8.iter().map(|&x| x as f64 / 8.0).collect();
                let limit = [0usize, 1, 2, 3, 5, 8][(i + call) % 6];
                out.new_case();
                let base = json!({"name": name, "arith": arith, "kind": if arith.starts_with("Minstar") { "minstar" } else { "aminstar" }, "phl": arith.contains("PartialHardLimit"),
                    "jones": arith.contains("Jones"), "deg1": arith.contains("Deg1Clip"), "sched": if hl { "layered" } else { "flooding" }, "rows": rows, "n": n, "x8": x8, "limit": limit, "call": call});
                match guarded(|| dec.decode(&llrs, limit)) {
                    Ok(r) => { let rj = result_json(&r); let mut e = base; e["verdict"] = rj["verdict"].clone(); e["word"] = rj["word"].clone(); e["iters"] = rj["iters"].clone(); out.ev("Dec8", "ok", e); }
                    Err(m) => { let mut e = base; e["msg"] = json!(m); out.ev("Dec8", "panic", e); }
                }
            }
        }
    }
    // (2) posterior clause: exact sum-product arithmetics on forests, at least graph-diameter iterations
    let n2 = if th { 5000 } else { 120 };
    for i in 0..n2 {
        let (rows, n) = random_forest(&mut rng, if i % 3 == 0 { 8 } else { 4 }, 12);
        // no isolated variables (their posterior is their channel LLR; and see Forced::llr_hard_decision): renumber the others
        let used: Vec<usize> = (0..n).filter(|v| rows.iter().any(|r| r.contains(v))).collect();
        let rows: Vec<Vec<usize>> = rows.iter().map(|r| r.iter().map(|v| used.iter().position(|u| u == v).unwrap()).collect()).collect();
        let n = used.len();
        // distinct channel LLRs in +-6
        let mut llrs: Vec<f64> = vec![];
        while llrs.len() < n {
            let amp = if i % 2 == 0 { 6.0 } else { 2.0 };
            let x = ((rng.unit() * 2.0 - 1.0) * amp * 1024.0).round() / 1024.0;
            if x != 0.0 && !llrs.contains(&x) { llrs.push(x); }
        }
        if i % 3 == 1 {
            // an erased / punctured bit: channel LLR exactly zero
            let z = rng.below(n);
            llrs[z] = 0.0;
        }
        // the decoder's zero-iteration shortcut must not trigger: make the sign pattern a non-codeword
        if syndrome_zero(&rows, &hard_in(&llrs)) {
            let v = *rows[0].iter().find(|&&v| llrs[v] != 0.0).expect("a row has at least two variables, at most one LLR is zero");
            llrs[v] = -llrs[v];
        }
        let its = graph_diameter(&rows, n) + [0usize, 3][i % 2];
        for layered in [false, true] {
            post_event(&mut out, "Phif64", Phif64::new, layered, &rows, n, &llrs, its);
            post_event(&mut out, "Tanhf64", Tanhf64::new, layered, &rows, n, &llrs, its);
            post_event(&mut out, "Phif32", Phif32::new, layered, &rows, n, &llrs, its);
            post_event(&mut out, "Tanhf32", Tanhf32::new, layered, &rows, n, &llrs, its);
        }
    }
    out.finish();
}

pub fn debug(_a: &Args) {
    let rows = vec![vec![1, 4, 5, 11], vec![4, 9], vec![0, 3, 8, 10, 11], vec![4, 6, 7, 10], vec![0, 7]];
    let llrs: Vec<f64> = [39, 35, 27, -2, -30, 13, -12, -19, 8, 25, -21, 36].iter().map(|&x| x as f64).collect();
    let mut d = horizontal_layered::Decoder::new(matrix(&rows, 12), IntMinSum);
    println!("fresh: {:?}", d.decode(&llrs, 4));
    println!("again: {:?}", d.decode(&llrs, 4));
    let h = matrix(&rows, 12);
    for r in 0..5 { println!("row {r}: {:?}", h.iter_row(r).collect::<Vec<_>>()); }
}
