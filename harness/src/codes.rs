//! C06 (DVB-S2) and C07 (CCSDS AR4JA / C2): one event per code carrying the real matrix (or sampled groups of it),
//! oracle results (rank, encoder timing, cycle witnesses) and the canonical-alist digest with its pin.
use crate::sha256::sha256_hex;
use crate::util::*;
use ldpc_toolbox::codes::ccsds::{AR4JACode, AR4JAInfoSize, AR4JARate, C2Code};
use ldpc_toolbox::codes::dvbs2::Code as DvbCode;
use ldpc_toolbox::encoder::Encoder;
use ldpc_toolbox::gf2::GF2;
use ldpc_toolbox::sparse::SparseMatrix;
use ndarray::Array1;
use num_traits::{One, Zero};
use serde_json::{Value, json};
use std::time::Instant;

fn sorted_col(h: &SparseMatrix, c: usize) -> Vec<usize> { let mut v: Vec<usize> = h.iter_col(c).copied().collect(); v.sort_unstable(); v }
fn raw_col(h: &SparseMatrix, c: usize) -> Vec<usize> { h.iter_col(c).copied().collect() }
fn raw_row(h: &SparseMatrix, r: usize) -> Vec<usize> { h.iter_row(r).copied().collect() }

pub fn digest(h: &SparseMatrix) -> String { sha256_hex(h.alist().as_bytes()) }

fn pins(file: &str) -> Value {
    let p = format!("{}/../pins/{}", env!("CARGO_MANIFEST_DIR"), file);
    std::fs::read_to_string(&p).ok().and_then(|s| serde_json::from_str(&s).ok()).unwrap_or(json!({}))
}

/// Encoder::from_h + a few encodings under a stopwatch; syndrome and prefix checked by a sparse product (oracle)
fn encoder_probe(h: &SparseMatrix, rng: &mut Rng, nmsg: usize) -> Value {
    let t0 = Instant::now();
    let res = guarded(|| Encoder::from_h(h));
    let build_ms = t0.elapsed().as_millis() as i64;
    match res {
        Err(m) => json!({"acc": false, "ms": build_ms, "syn_ok": false, "prefix_ok": false, "panic": m}),
        Ok(Err(_)) => json!({"acc": false, "ms": build_ms, "syn_ok": false, "prefix_ok": false}),
        Ok(Ok(enc)) => {
            let k = h.num_cols() - h.num_rows();
            let (mut syn_ok, mut prefix_ok) = (true, true);
            let t1 = Instant::now();
            for _ in 0..nmsg {
                let msg: Vec<bool> = (0..k).map(|_| rng.next() & 1 == 1).collect();
                let m = Array1::from_iter(msg.iter().map(|&b| if b { GF2::one() } else { GF2::zero() }));
                let c = enc.encode(&m);
                if c.len() != h.num_cols() { syn_ok = false; continue; }
                prefix_ok &= (0..k).all(|i| c[i].is_one() == msg[i]);
                for r in 0..h.num_rows() {
                    if h.iter_row(r).filter(|&&cc| c[cc].is_one()).count() % 2 != 0 { syn_ok = false; break; }
                }
            }
            json!({"acc": true, "ms": build_ms + t1.elapsed().as_millis() as i64, "syn_ok": syn_ok, "prefix_ok": prefix_ok, "dbg": format!("{:?}", enc).chars().take(40).collect::<String>()})
        }
    }
}

/// Oracle: does any pair of columns share two rows? (sorted row -> columns lists; validated against Tanner!Girth in --selftest)
pub fn has_four_cycle(h: &SparseMatrix) -> bool {
    use std::collections::HashSet;
    let mut seen: HashSet<(u32, u32)> = HashSet::new();
    for r in 0..h.num_rows() {
        let cols: Vec<usize> = h.iter_row(r).copied().collect();
        for a in 0..cols.len() { for b in a + 1..cols.len() {
            let key = (cols[a].min(cols[b]) as u32, cols[a].max(cols[b]) as u32);
            if !seen.insert(key) { return true; }
        } }
    }
    false
}

/// Oracle: some 6-cycle (c1,r1,c2,r2,c3,r3) with r1 in c1&c2, r2 in c2&c3, r3 in c3&c1; searched from the first columns
pub fn six_cycle(h: &SparseMatrix) -> Vec<usize> {
    for c1 in 0..h.num_cols().min(4000) {
        for &r1 in h.iter_col(c1) {
            for &c2 in h.iter_row(r1) {
                if c2 == c1 { continue; }
                for &r2 in h.iter_col(c2) {
                    if r2 == r1 { continue; }
                    for &c3 in h.iter_row(r2) {
                        if c3 == c2 || c3 == c1 { continue; }
                        for &r3 in h.iter_col(c3) {
                            if r3 != r1 && r3 != r2 && h.contains(r3, c1) { return vec![c1, r1, c2, r2, c3, r3]; }
                        }
                    }
                }
            }
        }
    }
    vec![]
}

/// Oracle: GF(2) rank by bit-packed elimination
pub fn rank_bitpacked(rows: &[Vec<usize>], ncols: usize) -> usize {
    let words = (ncols + 63) / 64;
    let mut m: Vec<Vec<u64>> = rows.iter().map(|r| { let mut v = vec![0u64; words]; for &c in r { v[c / 64] ^= 1u64 << (c % 64); } v }).collect();
    let nr = m.len();
    let mut rank = 0;
    for c in 0..ncols {
        let (w, b) = (c / 64, 1u64 << (c % 64));
        if let Some(p) = (rank..nr).find(|&i| m[i][w] & b != 0) {
            m.swap(rank, p);
            let piv = m[rank].clone();
            for i in rank + 1..nr {
                if m[i][w] & b != 0 { for (x, y) in m[i].iter_mut().zip(piv.iter()) { *x ^= *y; } }
            }
            rank += 1;
            if rank == nr { break; }
        }
    }
    rank
}

fn dvb_name(c: DvbCode) -> String { format!("{c:?}") }

fn dvb_event(out: &mut Out, c: DvbCode, full: bool, pin: &Value, rng: &mut Rng, with_enc: bool) {
    out.new_case();
    let name = dvb_name(c);
    let res = guarded(|| c.h());
    let h = match res { Ok(h) => h, Err(m) => { out.ev("Dvb", "panic", json!({"code": name, "msg": m})); return; } };
    let (rows, cols) = (h.num_rows(), h.num_cols());
    let k = cols.saturating_sub(rows);
    let ngroups = k / 360;
    let base: Vec<Vec<usize>> = (0..ngroups).map(|g| raw_col(&h, g * 360)).collect();
    let sel: Vec<usize> = if full { (0..ngroups).collect() } else {
        let mut s: Vec<usize> = vec![0, ngroups.saturating_sub(1), ngroups / 2];
        while s.len() < 12.min(ngroups) { let g = rng.below(ngroups.max(1)); if !s.contains(&g) { s.push(g); } }
        s.sort_unstable(); s.dedup(); s
    };
    let groups: Vec<Value> = sel.iter().map(|&g| json!({"g": g, "cols": (0..360).map(|t| raw_col(&h, g * 360 + t)).collect::<Vec<_>>()})).collect();
    let par: Vec<Vec<usize>> = if full || rows <= 20000 { (k..cols).map(|c| sorted_col(&h, c)).collect() } else {
        // sampled windows of the parity part + its two ends
        vec![]
    };
    let par_sample: Vec<Value> = if par.is_empty() {
        let mut v = vec![];
        for &p in &[0usize, 1, rows / 2, rows - 2, rows - 1] { v.push(json!([p, sorted_col(&h, k + p)])); }
        for _ in 0..400 { let p = rng.below(rows); v.push(json!([p, sorted_col(&h, k + p)])); }
        v
    } else { vec![] };
    let enc = if with_enc { encoder_probe(&h, rng, 3) } else { json!({"acc": true, "ms": 0, "syn_ok": true, "prefix_ok": true, "skipped": true}) };
    let cyc6 = if name == "R1_2" { six_cycle(&h) } else { vec![] };
    let total_ones: usize = (0..cols).map(|c| h.col_weight(c)).sum();
    out.ev("Dvb", "ok", json!({"code": name, "rows": rows, "cols": cols, "full": full, "base": base, "groups": groups, "par": par, "par_sample": par_sample,
        "par_weights_ok": (k..cols).all(|c| h.col_weight(c) == if c == cols - 1 { 1 } else { 2 }), "ones": total_ones,
        "enc": enc, "sha": digest(&h), "pin": pin.get(&name).and_then(|v| v.as_str()).unwrap_or("unpinned"), "cyc6": cyc6}));
}

pub fn generate_c06(a: &Args) {
    let mut out = Out::create(&a.out);
    let mut rng = Rng::new(a.seed ^ 0xC06);
    let th = is_thorough(a);
    let pin = pins("dvbs2.json");
    for c in enum_iterator::all::<DvbCode>() {
        let short = dvb_name(c).ends_with("short");
        dvb_event(&mut out, c, th || short, &pin, &mut rng, true);
    }
    out.finish();
}

fn ar4ja_name(r: AR4JARate, k: AR4JAInfoSize) -> String { format!("{r:?}_{k:?}") }

fn ccsds_event(out: &mut Out, name: &str, kind: &str, h: &SparseMatrix, m: usize, pin: &Value, rng: &mut Rng, with_enc: bool, with_girth: bool) {
    let rows: Vec<Vec<usize>> = (0..h.num_rows()).map(|r| raw_row(h, r)).collect();
    let nr = h.num_rows();
    let nc = h.num_cols();
    let rank = rank_bitpacked(&rows, nc);
    // rank of the last nr columns
    let tail_rows: Vec<Vec<usize>> = rows.iter().map(|r| r.iter().filter(|&&c| c >= nc - nr).map(|&c| c - (nc - nr)).collect()).collect();
    let tail_rank = rank_bitpacked(&tail_rows, nr);
    let enc = if with_enc { encoder_probe(h, rng, 2) } else { json!({"acc": true, "ms": 0, "syn_ok": true, "prefix_ok": true, "skipped": true}) };
    let (four, cyc6) = if with_girth { (has_four_cycle(h), six_cycle(h)) } else { (false, vec![]) };
    let colw: Vec<usize> = (0..nc).map(|c| h.col_weight(c)).collect();
    out.ev(kind, "ok", json!({"code": name, "M": m, "nrows": nr, "ncols": nc, "rows": rows, "colw": colw, "rank": rank, "tail_rank": tail_rank, "enc": enc,
        "girth_checked": with_girth, "four_cycle": four, "cyc6": cyc6, "sha": digest(h), "pin": pin.get(name).and_then(|v| v.as_str()).unwrap_or("unpinned")}));
}

pub fn generate_c07(a: &Args) {
    let mut out = Out::create(&a.out);
    let mut rng = Rng::new(a.seed ^ 0xC07);
    let th = is_thorough(a);
    let pin = pins("ccsds.json");
    for r in enum_iterator::all::<AR4JARate>() {
        for k in enum_iterator::all::<AR4JAInfoSize>() {
            let name = ar4ja_name(r, k);
            out.new_case();
            let res = guarded(|| AR4JACode::new(r, k).h());
            let h = match res { Ok(h) => h, Err(m) => { out.ev("Ar4ja", "panic", json!({"code": name, "msg": m})); continue; } };
            if matches!(k, AR4JAInfoSize::K16384) && !th {
                // quick tier: size, column degrees and the pinned digest only (the full event is ~100 k matrix entries per code)
                let colw: Vec<usize> = (0..h.num_cols()).map(|c| h.col_weight(c)).collect();
                out.ev("Ar4jaLite", "ok", json!({"code": name, "nrows": h.num_rows(), "ncols": h.num_cols(), "colw": colw, "sha": digest(&h),
                    "pin": pin.get(&name).and_then(|v| v.as_str()).unwrap_or("unpinned")}));
                continue;
            }
            let kinfo = match k { AR4JAInfoSize::K1024 => 1024, AR4JAInfoSize::K4096 => 4096, AR4JAInfoSize::K16384 => 16384 };
            let m = match r { AR4JARate::R1_2 => kinfo / 2, AR4JARate::R2_3 => kinfo / 4, AR4JARate::R4_5 => kinfo / 8 }; // for the JSON only; TLC has its own table
            let small = h.num_rows() <= 800 || (th && h.num_rows() <= 1600);
            let girth = matches!((r, k), (AR4JARate::R1_2, AR4JAInfoSize::K1024));
            ccsds_event(&mut out, &name, "Ar4ja", &h, m, &pin, &mut rng, small, girth);
        }
    }
    out.new_case();
    match guarded(|| C2Code::new().h()) {
        Ok(h) => ccsds_event(&mut out, "C2", "C2", &h, 511, &pin, &mut rng, false, true),
        Err(m) => out.ev("C2", "panic", json!({"code": "C2", "msg": m})),
    }
    out.finish();
}

/// `vh pins`: (re)generate the reference digests from the current tree (done once, committed under /verif/pins)
pub fn write_pins(a: &Args) {
    let mut d = serde_json::Map::new();
    for c in enum_iterator::all::<DvbCode>() { d.insert(dvb_name(c), json!(digest(&c.h()))); }
    std::fs::write(format!("{}/dvbs2.json", a.out), serde_json::to_string_pretty(&Value::Object(d)).unwrap()).unwrap();
    let mut d = serde_json::Map::new();
    for r in enum_iterator::all::<AR4JARate>() { for k in enum_iterator::all::<AR4JAInfoSize>() {
        d.insert(ar4ja_name(r, k), json!(digest(&AR4JACode::new(r, k).h())));
    } }
    d.insert("C2".into(), json!(digest(&C2Code::new().h())));
    std::fs::write(format!("{}/ccsds.json", a.out), serde_json::to_string_pretty(&Value::Object(d)).unwrap()).unwrap();
}

/// Oracle qualification (./check --selftest): the harness oracles used on large matrices, on TLC-sized inputs,
/// so that TLC can compare them with the declarative definitions (GF2!Rank, Tanner!Girth).
pub fn generate_selftest(a: &Args) {
    let mut out = Out::create(&a.out);
    let mut rng = Rng::new(a.seed ^ 0x5E1F);
    for i in 0..600 {
        let nr = 1 + rng.below(5);
        let nc = 1 + rng.below(6);
        let dens = [20u64, 40, 60, 80][i % 4];
        let rows: Vec<Vec<usize>> = (0..nr).map(|_| (0..nc).filter(|_| rng.coin(dens, 100)).collect()).collect();
        let h = crate::decoders::matrix(&rows, nc);
        out.new_case();
        let w = six_cycle(&h);
        out.ev("Oracle", "ok", json!({"nr": nr, "nc": nc, "rows": rows, "rank": rank_bitpacked(&rows, nc), "four": has_four_cycle(&h), "cyc6": w.len() == 6,
            "lrank": crate::linalg2::rank(&crate::linalg2::dense(&rows, nc))}));
    }
    // box-plus oracle against the direct tanh product in the well-conditioned range
    for _ in 0..400 {
        let d = 2 + rng.below(5);
        let xs: Vec<f64> = (0..d).map(|_| rng.gauss() * 2.0).collect();
        let direct = 2.0 * xs.iter().map(|x| (x / 2.0).tanh()).product::<f64>().atanh();
        out.new_case();
        out.ev("BoxPlus", "ok", json!({"d": d, "err_cb": crate::arith::cb(crate::arith::boxplus(&xs) - direct)}));
    }
    out.finish();
}
