//! C02 (systematic encoder) and C09 (systematic conversion): exhaustive small matrices and
//! seeded random classes, replayed through the real Encoder::from_h / encode / parity_to_systematic.
use crate::linalg2::*;
use crate::util::*;
use ldpc_toolbox::encoder::Encoder;
use ldpc_toolbox::gf2::GF2;
use ldpc_toolbox::sparse::SparseMatrix;
use ldpc_toolbox::systematic::{Error as SysError, parity_to_systematic};
use ndarray::Array1;
use num_traits::{One, Zero};
use serde_json::{Value, json};

const BRUTE_MAX: usize = 7; // must equal BruteMax in Trace_C02.tla / Trace_C09.tla

/// Build the matrix with the given ones. A matrix is a SET of positions: the history of insert() calls (and so the
/// order of the adjacency lists) must not matter, therefore two thirds of the matrices are built in a shuffled
/// order derived from their content, the rest in row-major order; one in five through insert_row / insert_col with a repeated index,
/// one in five by replacing rows / columns that hold other ones with set_row / set_col.
pub fn sparse_from_rows(rows: &[Vec<usize>], n: usize) -> SparseMatrix {
    let mut entries: Vec<(usize, usize)> = rows.iter().enumerate().flat_map(|(r, cs)| cs.iter().map(move |&c| (r, c))).collect();
    let salt = entries.iter().fold(n as u64 * 1315423911 + rows.len() as u64, |a, &(r, c)| a.rotate_left(7) ^ ((r as u64) << 20 | c as u64).wrapping_mul(0x9E3779B97F4A7C15));
    if salt % 3 != 0 {
        Rng::new(salt).shuffle(&mut entries);
    }
    let mut h = SparseMatrix::new(rows.len(), n);
    if salt % 5 == 2 {
        // a fourth history: every row (or column) first holds OTHER ones and is then replaced with set_row (set_col), i.e. clear + insert
        // on lists that are not empty; half of the replacements run in reverse order
        let by_rows = salt % 2 == 0;
        if by_rows {
            for r in 0..rows.len() {
                let junk: Vec<usize> = (0..n).filter(|c| (c + r) % 3 == 0 || *c == r).collect();
                h.insert_row(r, junk.iter());
            }
            let mut order: Vec<usize> = (0..rows.len()).collect();
            if salt % 4 == 0 { order.reverse(); }
            for r in order { h.set_row(r, rows[r].iter()); }
        } else {
            for c in 0..n {
                let junk: Vec<usize> = (0..rows.len()).filter(|r| (c + r) % 3 == 1 || *r == c).collect();
                h.insert_col(c, junk.iter());
            }
            let mut order: Vec<usize> = (0..n).collect();
            if salt % 4 == 1 { order.reverse(); }
            for c in order {
                let l: Vec<usize> = (0..rows.len()).filter(|&r| rows[r].contains(&c)).collect();
                h.set_col(c, l.iter());
            }
        }
        return h;
    }
    if salt % 5 == 1 {
        // a third history: the bulk operations, each list given with its first index REPEATED at the end (positions drawn with
        // replacement, colliding quasi-cyclic offsets): a repeated index means a single one
        if salt % 2 == 0 {
            for (r, cs) in rows.iter().enumerate() {
                let mut l = cs.clone();
                if let Some(&f) = cs.first() { l.push(f); }
                h.insert_row(r, l.iter());
            }
        } else {
            for c in 0..n {
                let mut l: Vec<usize> = (0..rows.len()).filter(|&r| rows[r].contains(&c)).collect();
                if let Some(&f) = l.first() { l.push(f); }
                h.insert_col(c, l.iter());
            }
        }
        return h;
    }
    for (r, c) in entries {
        h.insert(r, c);
    }
    h
}

/// row-major insertion (used where a second, explicitly different history is wanted)
pub fn sparse_row_major(rows: &[Vec<usize>], n: usize) -> SparseMatrix {
    let mut h = SparseMatrix::new(rows.len(), n);
    for (j, r) in rows.iter().enumerate() {
        for &c in r {
            h.insert(j, c);
        }
    }
    h
}

pub fn rows_of(h: &SparseMatrix) -> Vec<Vec<usize>> {
    (0..h.num_rows())
        .map(|r| {
            let mut v: Vec<usize> = h.iter_row(r).copied().collect();
            v.sort_unstable();
            v
        })
        .collect()
}

fn bits(v: &Array1<GF2>) -> Vec<u8> {
    v.iter().map(|x| if x.is_one() { 1 } else { 0 }).collect()
}
fn to_gf2(b: &[u8]) -> Array1<GF2> {
    Array1::from_iter(b.iter().map(|&x| if x == 1 { GF2::one() } else { GF2::zero() }))
}

/// messages to encode: all 2^k when k <= 4 (plus all sums), else basis + random + explicit sums
fn messages(k: usize, rng: &mut Rng) -> (Vec<Vec<u8>>, Vec<[usize; 3]>) {
    let mut msgs: Vec<Vec<u8>> = vec![];
    let mut lin = vec![];
    if k <= 4 {
        for x in 0..(1usize << k) {
            msgs.push((0..k).map(|b| ((x >> b) & 1) as u8).collect());
        }
        for a in 0..msgs.len() {
            for b in a..msgs.len() {
                lin.push([a + 1, b + 1, (a ^ b) + 1]);
            }
        }
    } else {
        msgs.push(vec![0; k]);
        for b in 0..k.min(6) {
            let mut m = vec![0; k];
            m[(b * 7) % k] = 1;
            msgs.push(m);
        }
        for _ in 0..4 {
            msgs.push((0..k).map(|_| (rng.next() & 1) as u8).collect());
        }
        let base = msgs.len();
        for t in 0..6 {
            let a = rng.below(base);
            let b = rng.below(base);
            let s: Vec<u8> = msgs[a].iter().zip(msgs[b].iter()).map(|(x, y)| x ^ y).collect();
            msgs.push(s);
            lin.push([a + 1, b + 1, base + t + 1]);
        }
    }
    (msgs, lin)
}

fn enc_event(out: &mut Out, rows: &[Vec<usize>], n: usize, rng: &mut Rng) {
    out.new_case();
    let r = rows.len();
    let res = guarded(|| {
        let h = sparse_from_rows(rows, n);
        match Encoder::from_h(&h) {
            Err(_) => (false, vec![], vec![]),
            Ok(enc) => {
                let (msgs, lin) = messages(n - r, rng);
                // encode() takes an array VIEW: the same message through owned / stride -1 / stride 2 / stride -2 storage
                let pairs: Vec<Value> = msgs
                    .iter()
                    .enumerate()
                    .map(|(t, m)| {
                        use ndarray::s;
                        let g = to_gf2(m);
                        let gv: Vec<GF2> = g.to_vec();
                        let c = match (t + n) % 4 {
                            0 => enc.encode(&g),
                            1 => { let st = ndarray::Array1::from_iter(gv.iter().rev().cloned()); enc.encode(&st.slice(s![..;-1])) }
                            2 => { let st = ndarray::Array1::from_iter(gv.iter().flat_map(|x| [x.clone(), GF2::one()])); enc.encode(&st.slice(s![..;2])) }
                            _ => { let st = ndarray::Array1::from_iter(gv.iter().rev().flat_map(|x| [GF2::one(), x.clone()])); enc.encode(&st.slice(s![..;-2])) }
                        };
                        json!({"m": m, "c": bits(&c), "layout": (t + n) % 4})
                    })
                    .collect();
                (true, pairs, lin)
            }
        }
    });
    match res {
        Err(msg) => out.ev("Enc", "panic", json!({"r": r, "n": n, "rows": rows, "msg": msg})),
        Ok((acc, pairs, lin)) => {
            let cert = if r <= BRUTE_MAX {
                json!({"kind": "none", "w": []})
            } else {
                match inverse_or_kernel(&tail(&dense(rows, n))) {
                    Ok(inv) => json!({"kind": "inv", "w": inv}),
                    Err(x) => json!({"kind": "ker", "w": [x]}),
                }
            };
            out.ev("Enc", "ok", json!({"r": r, "n": n, "rows": rows, "acc": acc, "pairs": pairs, "lin": lin, "cert": cert}));
        }
    }
}

fn sys_event(out: &mut Out, rows: &[Vec<usize>], n: usize) {
    out.new_case();
    let r = rows.len();
    let res = guarded(|| {
        let h = sparse_from_rows(rows, n);
        match parity_to_systematic(&h) {
            Err(SysError::NotFullRank) => ("notfullrank", vec![], false),
            Err(SysError::ParityOverdetermined) => ("overdetermined", vec![], false),
            Ok(hs) => {
                let acc = Encoder::from_h(&hs).is_ok();
                if hs.num_rows() != r || hs.num_cols() != n {
                    ("baddims", rows_of(&hs), acc)
                } else {
                    ("ok", rows_of(&hs), acc)
                }
            }
        }
    });
    match res {
        Err(msg) => out.ev("Sys", "panic", json!({"r": r, "n": n, "rows": rows, "msg": msg})),
        Ok((v, res_rows, acc)) => {
            let cert = if r <= BRUTE_MAX {
                json!({"kind": "none", "w": []})
            } else if v == "ok" {
                match inverse_or_kernel(&tail(&dense(&res_rows, n))) {
                    Ok(inv) => json!({"kind": "inv", "w": inv}),
                    Err(x) => json!({"kind": "ker", "w": [x]}),
                }
            } else {
                match left_kernel(&dense(rows, n)) {
                    Some(y) => json!({"kind": "lker", "w": [y]}),
                    None => json!({"kind": "none", "w": []}),
                }
            };
            out.ev("Sys", "ok", json!({"r": r, "n": n, "rows": rows, "v": v, "res": res_rows, "enc_acc": acc, "cert": cert}));
        }
    }
}

fn all_matrices(rmax: usize, nmax: usize, mut f: impl FnMut(&[Vec<usize>], usize)) {
    for r in 1..=rmax {
        for n in r..=nmax {
            let cells = r * n;
            for x in 0u64..(1u64 << cells) {
                let rows: Vec<Vec<usize>> =
                    (0..r).map(|j| (0..n).filter(|&c| (x >> (j * n + c)) & 1 == 1).collect()).collect();
                f(&rows, n);
            }
        }
    }
}

fn random_rows(rng: &mut Rng, r: usize, n: usize, density: u64) -> Vec<Vec<usize>> {
    (0..r).map(|_| (0..n).filter(|_| rng.coin(density, 100)).collect()).collect()
}

fn staircase_rows(rng: &mut Rng, r: usize, n: usize) -> Vec<Vec<usize>> {
    let k = n - r;
    (0..r)
        .map(|j| {
            let mut v: Vec<usize> = (0..k).filter(|_| rng.coin(30, 100)).collect();
            if j > 0 {
                v.push(k + j - 1);
            }
            v.push(k + j);
            v
        })
        .collect()
}

fn toggle(rows: &mut [Vec<usize>], j: usize, c: usize) {
    if let Some(p) = rows[j].iter().position(|&x| x == c) {
        rows[j].remove(p);
    } else {
        rows[j].push(c);
        rows[j].sort_unstable();
    }
}

/// the classes of the quantifier: staircase, near-staircase, dense invertible/singular tail, square
fn c02_random(rng: &mut Rng, idx: usize, big: bool) -> (Vec<Vec<usize>>, usize) {
    let r = if big { 8 + rng.below(5) } else { 1 + rng.below(7) };
    let n = if idx % 9 == 8 { r } else { r + rng.below(if big { 19 } else { 10 }) };
    let k = n - r;
    match idx % 6 {
        0 => (staircase_rows(rng, r, n), n),
        1 | 2 => {
            // near-staircase: one extra / missing / moved one in the parity part
            let mut rows = staircase_rows(rng, r, n);
            let j = rng.below(r);
            match rng.below(3) {
                0 => toggle(&mut rows, j, k + rng.below(r)),
                1 => toggle(&mut rows, j, k + j),
                _ => {
                    toggle(&mut rows, j, k + j);
                    let j2 = rng.below(r);
                    toggle(&mut rows, j2, k + rng.below(r));
                }
            }
            (rows, n)
        }
        3 => (random_rows(rng, r, n, 50), n),
        4 => {
            // singular tail by construction: duplicate a tail column pattern or zero a tail column
            let mut rows = random_rows(rng, r, n, 45);
            if r >= 2 {
                let c1 = k + rng.below(r);
                let c2 = k + rng.below(r);
                for j in 0..r {
                    let has1 = rows[j].contains(&c1);
                    let has2 = rows[j].contains(&c2);
                    if c1 != c2 && has1 != has2 {
                        toggle(&mut rows, j, c2);
                    }
                    if c1 == c2 && has1 {
                        toggle(&mut rows, j, c1);
                    }
                }
            }
            (rows, n)
        }
        _ => {
            let d = 20 + rng.below(60) as u64;
            (random_rows(rng, r, n, d), n)
        }
    }
}

/// gf2.rs: every operator form on every pair, and Sum over every sequence up to length 6
fn gf2_events(out: &mut Out) {
    let g = |b: u8| if b == 1 { GF2::one() } else { GF2::zero() };
    let v = |x: GF2| if x.is_one() { 1 } else { 0 };
    for a in 0..2u8 { for b in 0..2u8 { for op in ["add", "sub", "mul", "div"] { for form in ["val", "ref", "assign", "assign_ref"] {
        out.new_case();
        let r = guarded(|| {
            let (x, y) = (g(a), g(b));
            match (op, form) {
                ("add", "val") => x + y, ("add", "ref") => x + &y, ("add", "assign") => { let mut z = x; z += y; z } ("add", _) => { let mut z = x; z += &y; z }
                ("sub", "val") => x - y, ("sub", "ref") => x - &y, ("sub", "assign") => { let mut z = x; z -= y; z } ("sub", _) => { let mut z = x; z -= &y; z }
                ("mul", "val") => x * y, ("mul", "ref") => x * &y, ("mul", "assign") => { let mut z = x; z *= y; z } ("mul", _) => { let mut z = x; z *= &y; z }
                (_, "val") => x / y, (_, "ref") => x / &y, (_, "assign") => { let mut z = x; z /= y; z } _ => { let mut z = x; z /= &y; z }
            }
        });
        match r {
            Ok(z) => out.ev("Gf2", "ok", json!({"op": op, "form": form, "a": a, "b": b, "res": v(z), "panicked": false})),
            Err(_) => out.ev("Gf2", "ok", json!({"op": op, "form": form, "a": a, "b": b, "res": 0, "panicked": true})),
        }
    } } } }
    for len in 0..=6usize { for x in 0u32..(1u32 << len) {
        out.new_case();
        let bits: Vec<u8> = (0..len).map(|k| ((x >> k) & 1) as u8).collect();
        let sum: GF2 = bits.iter().map(|&b| g(b)).sum();
        out.ev("Gf2Sum", "ok", json!({"bits": bits, "res": v(sum)}));
    } }
}

pub fn generate_c02(a: &Args) {
    let mut out = Out::create(&a.out);
    let mut rng = Rng::new(a.seed ^ 0xC02);
    gf2_events(&mut out);
    let (rmax, nmax) = if is_thorough(a) { (3, 5) } else { (3, 4) };
    let mut rng2 = rng.clone();
    all_matrices(rmax, nmax, |rows, n| enc_event(&mut out, rows, n, &mut rng2));
    if is_thorough(a) {
        // every square 4x4 matrix and every 2x6 matrix as well
        for (r, n) in [(4usize, 4usize), (2, 6)] {
            for x in 0u64..(1u64 << (r * n)) {
                let rows: Vec<Vec<usize>> = (0..r).map(|j| (0..n).filter(|&c| (x >> (j * n + c)) & 1 == 1).collect()).collect();
                enc_event(&mut out, &rows, n, &mut rng);
            }
        }
    }
    let (small, big) = if is_thorough(a) { (25000, 3000) } else { (700, 40) };
    for i in 0..small {
        let (rows, n) = c02_random(&mut rng, i, false);
        enc_event(&mut out, &rows, n, &mut rng);
    }
    for i in 0..big {
        let (rows, n) = c02_random(&mut rng, i, true);
        enc_event(&mut out, &rows, n, &mut rng);
    }
    out.finish();
}

fn c09_random(rng: &mut Rng, idx: usize, big: bool) -> (Vec<Vec<usize>>, usize) {
    let r = if big { 8 + rng.below(5) } else { 1 + rng.below(7) };
    let n = if idx % 7 == 6 { r } else { r + rng.below(if big { 19 } else { 10 }) };
    let d = 15 + rng.below(50) as u64;
    let mut rows = random_rows(rng, r, n, d);
    match idx % 5 {
        0 => {}
        1 if r >= 2 => {
            // rank-deficient by construction: a row is a copy / sum of others / zero
            let j = rng.below(r);
            match rng.below(3) {
                0 => rows[j] = rows[(j + 1) % r].clone(),
                1 => rows[j] = vec![],
                _ => {
                    let (a, b) = ((j + 1) % r, (j + 2) % r);
                    let mut v = vec![0u8; n];
                    for &c in &rows[a] {
                        v[c] ^= 1;
                    }
                    if b != a {
                        for &c in &rows[b] {
                            v[c] ^= 1;
                        }
                    }
                    rows[j] = (0..n).filter(|&c| v[c] == 1).collect();
                }
            }
        }
        2 => {
            // pivots at the far right: zero out the first columns
            let z = n - r.min(n);
            for row in rows.iter_mut() {
                row.retain(|&c| c >= z);
            }
        }
        3 => {
            // zero and duplicate columns
            if n >= 2 {
                let c0 = rng.below(n);
                let c1 = rng.below(n);
                for j in 0..r {
                    rows[j].retain(|&c| c != c0);
                    if c1 != c0 {
                        let src = rows[j].contains(&c1);
                        if src {
                            rows[j].push(c0);
                            rows[j].sort_unstable();
                        }
                    }
                }
            }
        }
        _ => {
            // full rank by construction: identity block somewhere + noise elsewhere
            let off = rng.below(n - r + 1);
            for (j, row) in rows.iter_mut().enumerate() {
                row.retain(|&c| c < off || c >= off + r);
                row.push(off + j);
                row.sort_unstable();
            }
        }
    }
    (rows, n)
}

pub fn generate_c09(a: &Args) {
    let mut out = Out::create(&a.out);
    let mut rng = Rng::new(a.seed ^ 0xC09);
    let (rmax, nmax) = if is_thorough(a) { (3, 5) } else { (3, 4) };
    all_matrices(rmax, nmax, |rows, n| sys_event(&mut out, rows, n));
    if is_thorough(a) {
        // 2x6 and 4x4 exhaustively as well
        for (r, n) in [(2usize, 6usize), (4, 4)] {
            for x in 0u64..(1u64 << (r * n)) {
                let rows: Vec<Vec<usize>> =
                    (0..r).map(|j| (0..n).filter(|&c| (x >> (j * n + c)) & 1 == 1).collect()).collect();
                sys_event(&mut out, &rows, n);
            }
        }
    }
    let (small, big) = if is_thorough(a) { (30000, 4000) } else { (900, 50) };
    for i in 0..small {
        let (rows, n) = c09_random(&mut rng, i, false);
        sys_event(&mut out, &rows, n);
    }
    for i in 0..big {
        let (rows, n) = c09_random(&mut rng, i, true);
        sys_event(&mut out, &rows, n);
    }
    out.finish();
}
