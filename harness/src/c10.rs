//! C10: call histories on one long-lived decoder object; every call also issued to a fresh decoder.
use crate::decoders::*;
use crate::util::*;
use serde_json::json;

pub fn generate(a: &Args) {
    let mut out = Out::create(&a.out);
    let mut rng = Rng::new(a.seed ^ 0xC10);
    let hists = if is_thorough(a) { 200 } else { 4 };
    let limits = [0usize, 1, 3, 20];
    for (k, name) in NAMES.iter().enumerate() {
        for hidx in 0..hists {
            let (rows, n) = random_code(&mut rng, hidx + k, 5, 10);
            out.new_case();
            let len = 5 + rng.below(16);
            let mut dec = match guarded(|| build(name, matrix(&rows, n)).expect("name")) {
                Ok(d) => d,
                Err(m) => {
                    out.ev("Call", "panic", json!({"impl": name, "msg": m, "step": 0}));
                    continue;
                }
            };
            let mut prev_iterated = false;
            // a small pool of argument tuples so that repeats occur (functional consistency)
            let mut pool: Vec<(Vec<f64>, usize)> = vec![];
            for step in 0..len {
                let (llrs, limit) = if !pool.is_empty() && rng.coin(1, 4) {
                    pool[rng.below(pool.len())].clone()
                } else {
                    let cls = rng.below(13);
                    let mut limit = *rng.pick(&limits);
                    if prev_iterated && rng.coin(1, 2) {
                        limit = 0; // a limit-0 call directly after an iterating frame is forced into every history
                    }
                    (llr_vector(&mut rng, n, cls), limit)
                };
                pool.push((llrs.clone(), limit));
                let key = fnv(format!("{:?}|{}", llrs.iter().map(|x| x.to_bits()).collect::<Vec<_>>(), limit).as_bytes());
                let res = guarded(|| dec.decode(&llrs, limit));
                let fresh = guarded(|| build(name, matrix(&rows, n)).expect("name").decode(&llrs, limit));
                match (res, fresh) {
                    (Ok(r), Ok(f)) => {
                        prev_iterated = match &r { Ok(o) => o.iterations > 0, Err(o) => o.iterations > 0 };
                        out.ev("Call", "ok", json!({"impl": name, "rows": rows, "n": n, "step": step, "key": key, "limit": limit,
                            "hard_in": hard_in(&llrs), "res": result_json(&r), "fresh": result_json(&f)}));
                    }
                    (r, f) => {
                        out.ev("Call", "panic", json!({"impl": name, "rows": rows, "n": n, "step": step, "key": key, "limit": limit,
                            "msg": format!("{:?} / {:?}", r.err(), f.err())}));
                        break;
                    }
                }
            }
        }
    }
    out.finish();
}
