//! vh: conformance harness binding the TLA+ specifications in /verif/spec to the real code in /repo.
//!   vh gen    <Cxx> --tier quick|thorough --seed N --out trace.ndjson
//!   vh replay <Cxx> --in cases.ndjson --out trace.ndjson
mod util;
mod arith;
mod c01;
mod c02;
mod c03;
mod c08;
mod c10;
mod c11;
mod bersup;
mod c12;
mod c13;
mod c14;
mod c15;
mod c16;
mod c17;
mod c18;
mod c19;
mod c20;
mod codes;
mod decoders;
mod sha256;
mod linalg2;

use util::Args;

fn main() {
    let argv: Vec<String> = std::env::args().collect();
    if argv.len() < 3 {
        eprintln!("usage: vh gen|replay <Cxx> [--tier T] [--seed N] [--in F] --out F");
        std::process::exit(2);
    }
    let mode = argv[1].clone();
    let prop = argv[2].clone();
    let mut a = Args { tier: "quick".into(), seed: 1, out: String::new(), input: None, extra: vec![] };
    let mut k = 3;
    while k < argv.len() {
        match argv[k].as_str() {
            "--tier" => { a.tier = argv[k + 1].clone(); k += 2; }
            "--seed" => { a.seed = argv[k + 1].parse().expect("seed"); k += 2; }
            "--out" => { a.out = argv[k + 1].clone(); k += 2; }
            "--in" => { a.input = Some(argv[k + 1].clone()); k += 2; }
            _ => { a.extra.push(argv[k].clone()); k += 1; }
        }
    }
    assert_eq!(sha256::sha256_hex(b"abc"), "ba7816bf8f01cfea414140de5dae2223b00361a396177a9cb410ff61f20015ad");
    util::quiet_panics();
    match (mode.as_str(), prop.as_str()) {
        ("gen", "C01") => c01::generate(&a),
        ("gen", "C10") => c10::generate(&a),
        ("gen", "C03") => c03::generate(&a),
        ("gen", "C03dbg") => c03::debug(&a),
        ("gen", "C04") => arith::generate_c04(&a),
        ("gen", "C05") => arith::generate_c05(&a),
        ("gen", "C02") => c02::generate_c02(&a),
        ("gen", "C06") => codes::generate_c06(&a),
        ("gen", "C07") => codes::generate_c07(&a),
        ("pins", _) => codes::write_pins(&a),
        ("gen", "SELFTEST") => codes::generate_selftest(&a),
        ("gen", "C08") => c08::generate(&a),
        ("gen", "C09") => c02::generate_c09(&a),
        ("gen", "C11") => c11::generate(&a),
        ("gen", "C20") => c20::generate(&a),
        ("gen", "C19") => c19::generate(&a),
        ("capichild", "C19") => c19::child(&a),
        ("parsechild", "C08") => c08::child(&a),
        ("cliber", "C20") => c20::cliber_child(&a),
        // vh decode X --in case.json : re-run ONE decode call {impl, rows, n, llrs, limit} of a replay file on the real decoder
        ("decode", _) => {
            let v: serde_json::Value = serde_json::from_str(&std::fs::read_to_string(a.input.as_ref().expect("--in")).unwrap()).unwrap();
            let rows: Vec<Vec<usize>> = serde_json::from_value(v["rows"].clone()).unwrap();
            let llrs: Vec<f64> = v["llrs"].as_array().unwrap().iter().map(|x| x.as_f64().unwrap()).collect();
            let n = v["n"].as_u64().unwrap() as usize;
            let mut d = decoders::build(v["impl"].as_str().unwrap(), decoders::matrix(&rows, n)).expect("name");
            println!("{:?}", util::guarded(|| d.decode(&llrs, v["limit"].as_u64().unwrap() as usize)));
        }
        ("gen", "C18") => c18::generate(&a),
        ("gen", "C12") => c12::generate(&a),
        ("gen", "C13") => c13::generate(&a),
        ("berchild", "C13") => c13::child(&a),
        ("gen", "C14") => c14::generate(&a),
        ("gen", "C15") => c15::generate(&a),
        ("gen", "C16") => c16::generate(&a),
        ("gen", "C17") => c17::generate(&a),
        ("replay", "C17") => c17::replay(&a),
        _ => {
            eprintln!("vh: unknown mode/property {mode} {prop}");
            std::process::exit(2);
        }
    }
}
