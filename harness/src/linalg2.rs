//! Harness-side GF(2) oracle: plain elimination on Vec<Vec<u8>>. Used ONLY to produce witnesses
//! (inverse matrix, kernel vectors) that TLC verifies; never to give a verdict.
pub type Mat = Vec<Vec<u8>>;

pub fn dense(rows: &[Vec<usize>], n: usize) -> Mat {
    rows.iter()
        .map(|r| {
            let mut v = vec![0u8; n];
            for &c in r {
                v[c] = 1;
            }
            v
        })
        .collect()
}

pub fn tail(a: &Mat) -> Mat {
    let r = a.len();
    let n = a[0].len();
    a.iter().map(|row| row[n - r..].to_vec()).collect()
}

/// Inverse of a square matrix, or a non-zero kernel vector x (T x = 0).
pub fn inverse_or_kernel(t: &Mat) -> Result<Mat, Vec<u8>> {
    let r = t.len();
    // augmented [T | I]
    let mut a: Mat = t
        .iter()
        .enumerate()
        .map(|(i, row)| {
            let mut v = row.clone();
            v.extend((0..r).map(|j| (i == j) as u8));
            v
        })
        .collect();
    let mut pivcol = vec![usize::MAX; r]; // pivot column of each pivot row
    let mut prow = 0;
    let mut free = vec![];
    for c in 0..r {
        if let Some(p) = (prow..r).find(|&i| a[i][c] == 1) {
            a.swap(prow, p);
            for i in 0..r {
                if i != prow && a[i][c] == 1 {
                    let src = a[prow].clone();
                    for (x, y) in a[i].iter_mut().zip(src.iter()) {
                        *x ^= *y;
                    }
                }
            }
            pivcol[prow] = c;
            prow += 1;
        } else {
            free.push(c);
        }
    }
    if prow == r {
        Ok(a.iter().map(|row| row[r..].to_vec()).collect())
    } else {
        // kernel vector: set the first free variable to 1, solve pivots
        let f = free[0];
        let mut x = vec![0u8; r];
        x[f] = 1;
        for i in 0..prow {
            if a[i][f] == 1 {
                x[pivcol[i]] = 1;
            }
        }
        Err(x)
    }
}

/// A non-zero y with y A = 0 if the rows of A are dependent.
pub fn left_kernel(a: &Mat) -> Option<Vec<u8>> {
    let r = a.len();
    let n = if r > 0 { a[0].len() } else { 0 };
    // rows augmented with identity tracking combinations
    let mut m: Mat = a
        .iter()
        .enumerate()
        .map(|(i, row)| {
            let mut v = row.clone();
            v.extend((0..r).map(|j| (i == j) as u8));
            v
        })
        .collect();
    let mut prow = 0;
    for c in 0..n {
        if let Some(p) = (prow..r).find(|&i| m[i][c] == 1) {
            m.swap(prow, p);
            for i in 0..r {
                if i != prow && m[i][c] == 1 {
                    let src = m[prow].clone();
                    for (x, y) in m[i].iter_mut().zip(src.iter()) {
                        *x ^= *y;
                    }
                }
            }
            prow += 1;
        }
    }
    if prow == r {
        None
    } else {
        Some(m[prow][n..].to_vec())
    }
}

pub fn rank(a: &Mat) -> usize {
    let r = a.len();
    if r == 0 {
        return 0;
    }
    let n = a[0].len();
    let mut m = a.clone();
    let mut prow = 0;
    for c in 0..n {
        if let Some(p) = (prow..r).find(|&i| m[i][c] == 1) {
            m.swap(prow, p);
            for i in 0..r {
                if i != prow && m[i][c] == 1 {
                    let src = m[prow].clone();
                    for (x, y) in m[i].iter_mut().zip(src.iter()) {
                        *x ^= *y;
                    }
                }
            }
            prow += 1;
        }
    }
    prow
}
