//! C11: bfs / girth / local girth of the real code on exhaustive small graphs and seeded random graphs
//! in the classes of the quantifier. Results only; the verdict is TLC's (Tanner.tla).
use crate::c02::sparse_row_major as sparse_from_rows;
use crate::util::*;
use ldpc_toolbox::sparse::{Node, SparseMatrix};
use serde_json::json;

fn opt(x: Option<usize>) -> i64 {
    x.map(|v| v as i64).unwrap_or(-1)
}

fn node_of(id: usize, nr: usize) -> Node {
    if id < nr { Node::Row(id) } else { Node::Col(id - nr) }
}

const BOUNDS: [i64; 9] = [-1, 0, 1, 2, 4, 5, 6, 8, 10];

/// the same graph built by a different history of insert() calls (adjacency-list order is not part of the graph)
fn shuffled_matrix(rows: &[Vec<usize>], nc: usize, salt: u64) -> SparseMatrix {
    let mut entries: Vec<(usize, usize)> = rows.iter().enumerate().flat_map(|(r, cs)| cs.iter().map(move |&c| (r, c))).collect();
    Rng::new(salt).shuffle(&mut entries);
    let mut h = SparseMatrix::new(rows.len(), nc);
    for (r, c) in entries { h.insert(r, c); }
    h
}

fn graph_events(out: &mut Out, rows: &[Vec<usize>], nc: usize, roots: &[usize]) {
    graph_events_order(out, rows, nc, roots, None);
    // and once more with the entries inserted in a shuffled order
    let salt = rows.iter().flatten().fold(nc as u64 + 17, |a, &c| a.wrapping_mul(31).wrapping_add(c as u64 + 1)) ^ (rows.len() as u64) << 40;
    graph_events_order(out, rows, nc, roots, Some(salt));
}

fn graph_events_order(out: &mut Out, rows: &[Vec<usize>], nc: usize, roots: &[usize], shuffle: Option<u64>) {
    let nr = rows.len();
    let h: SparseMatrix = match shuffle { None => sparse_from_rows(rows, nc), Some(s) => shuffled_matrix(rows, nc, s) };
    out.new_case();
    let res = guarded(|| {
        BOUNDS
            .iter()
            .map(|&m| {
                let g = if m < 0 { h.girth() } else { h.girth_with_max(m as usize) };
                vec![m, opt(g)]
            })
            .collect::<Vec<_>>()
    });
    match res {
        Ok(g) => out.ev("Girth", "ok", json!({"nr": nr, "nc": nc, "rows": rows, "g": g, "shuffled": shuffle.is_some()})),
        Err(m) => out.ev("Girth", "panic", json!({"nr": nr, "nc": nc, "rows": rows, "msg": m})),
    }
    for &root in roots {
        out.new_case();
        let res = guarded(|| {
            let r = h.bfs(node_of(root, nr));
            let rd: Vec<i64> = r.row_nodes_distance.iter().map(|&x| opt(x)).collect();
            let cd: Vec<i64> = r.col_nodes_distance.iter().map(|&x| opt(x)).collect();
            let lg: Vec<Vec<i64>> = BOUNDS
                .iter()
                .map(|&m| {
                    let g = if m < 0 {
                        h.girth_at_node(node_of(root, nr))
                    } else {
                        h.girth_at_node_with_max(node_of(root, nr), m as usize)
                    };
                    vec![m, opt(g)]
                })
                .collect();
            (rd, cd, lg)
        });
        match res {
            Ok((rd, cd, lg)) => out.ev("Node", "ok", json!({"nr": nr, "nc": nc, "rows": rows, "root": root, "rd": rd, "cd": cd, "lg": lg, "shuffled": shuffle.is_some()})),
            Err(m) => out.ev("Node", "panic", json!({"nr": nr, "nc": nc, "rows": rows, "root": root, "msg": m})),
        }
    }
}

fn all_graphs(out: &mut Out, nr: usize, nc: usize, stride: u64) {
    let cells = nr * nc;
    let roots: Vec<usize> = (0..nr + nc).collect();
    let mut x = 0u64;
    while x < (1u64 << cells) {
        let rows: Vec<Vec<usize>> = (0..nr).map(|j| (0..nc).filter(|&c| (x >> (j * nc + c)) & 1 == 1).collect()).collect();
        graph_events(out, &rows, nc, &roots);
        x += stride;
    }
}

fn add_edge(rows: &mut [Vec<usize>], r: usize, c: usize) {
    if !rows[r].contains(&c) {
        rows[r].push(c);
    }
}

/// classes: forests, unicyclic, dense, disconnected, cycles with pendant paths / trees, two cycles sharing a node
fn random_graph(rng: &mut Rng, idx: usize) -> (Vec<Vec<usize>>, usize) {
    let nr = 3 + rng.below(6);
    let nc = 3 + rng.below(8);
    let mut rows: Vec<Vec<usize>> = vec![vec![]; nr];
    // node ids: rows 0..nr, cols nr..nr+nc ; helper to add an edge between a row and a col
    let tree = |rng: &mut Rng, rows: &mut Vec<Vec<usize>>, nr: usize, nc: usize, frac: u64| {
        // random forest: attach each node (in random order) to a random earlier node of the other side
        let mut order: Vec<usize> = (0..nr + nc).collect();
        rng.shuffle(&mut order);
        let mut seen_r: Vec<usize> = vec![];
        let mut seen_c: Vec<usize> = vec![];
        for &v in &order {
            if v < nr {
                if !seen_c.is_empty() && rng.coin(frac, 100) {
                    let c = seen_c[rng.below(seen_c.len())];
                    add_edge(rows, v, c);
                }
                seen_r.push(v);
            } else {
                if !seen_r.is_empty() && rng.coin(frac, 100) {
                    let r = seen_r[rng.below(seen_r.len())];
                    add_edge(rows, r, v - nr);
                }
                seen_c.push(v - nr);
            }
        }
    };
    match idx % 6 {
        0 => tree(rng, &mut rows, nr, nc, 100),
        1 => {
            tree(rng, &mut rows, nr, nc, 100);
            add_edge(&mut rows, rng.below(nr), rng.below(nc)); // (usually) unicyclic
        }
        2 => {
            for r in 0..nr {
                for c in 0..nc {
                    if rng.coin(45, 100) {
                        add_edge(&mut rows, r, c);
                    }
                }
            }
        }
        3 => tree(rng, &mut rows, nr, nc, 60), // disconnected forest
        4 => {
            // a cycle of length 2L with a pendant path attached to it
            let l = 2 + rng.below(nr.min(nc).min(4) - 1);
            for t in 0..l {
                add_edge(&mut rows, t, t);
                add_edge(&mut rows, t, (t + 1) % l);
            }
            // pendant path from cycle node row 0: col l, row l, col l+1 ...
            let mut r = 0;
            let mut c = l;
            while c < nc && r < nr {
                add_edge(&mut rows, r, c);
                r = r.max(l - 1) + 1;
                if r >= nr {
                    break;
                }
                add_edge(&mut rows, r, c);
                c += 1;
            }
        }
        _ => {
            // two cycles sharing row node 0, plus random pendant edges
            add_edge(&mut rows, 0, 0);
            add_edge(&mut rows, 0, 1);
            add_edge(&mut rows, 1, 0);
            add_edge(&mut rows, 1, 1);
            if nr >= 4 && nc >= 5 {
                add_edge(&mut rows, 0, 2);
                add_edge(&mut rows, 2, 2);
                add_edge(&mut rows, 2, 3);
                add_edge(&mut rows, 3, 3);
                add_edge(&mut rows, 3, 4);
                add_edge(&mut rows, 0, 4);
            }
            for _ in 0..3 {
                let r = rng.below(nr);
                let c = rng.below(nc);
                if rows[r].is_empty() || !rows.iter().any(|x| x.contains(&c)) {
                    add_edge(&mut rows, r, c);
                }
            }
        }
    }
    (rows, nc)
}

/// a cycle of length 2L (through row 0) with pendant 4-cycles hanging off some of its nodes and an optional longer
/// second cycle through row 0: the shapes in which "first collision" shortcuts and order-dependent scans go wrong
fn cactus(rng: &mut Rng) -> (Vec<Vec<usize>>, usize) {
    let l = 2 + rng.below(3); // main cycle r0-c0-r1-c1-...-r(l-1)-c(l-1)-r0
    let mut nr = l;
    let mut nc = l;
    let mut edges: Vec<(usize, usize)> = vec![];
    for t in 0..l { edges.push((t, t)); edges.push(((t + 1) % l, t)); }
    // pendant 4-cycles at row nodes / column nodes of the main cycle
    for t in 0..l {
        if rng.coin(1, 2) && nr < 7 && nc + 1 < 9 { // at row t: (t,cA),(rA,cA),(rA,cB),(t,cB)
            let (ca, cb, ra) = (nc, nc + 1, nr);
            nc += 2; nr += 1;
            edges.extend([(t, ca), (ra, ca), (ra, cb), (t, cb)]);
        }
        if rng.coin(1, 3) && nr + 1 < 8 && nc < 9 { // at column t: (rA,t),(rA,cA),(rB,cA),(rB,t)
            let (ra, rb, ca) = (nr, nr + 1, nc);
            nr += 2; nc += 1;
            edges.extend([(ra, t), (ra, ca), (rb, ca), (rb, t)]);
        }
    }
    // 4-cycles sharing an EDGE (row t, column t) of the main cycle: t - cA - rA - column t
    for t in 0..l {
        if rng.coin(1, 2) && nr < 8 && nc < 9 {
            let (ca, ra) = (nc, nr);
            nc += 1; nr += 1;
            edges.extend([(t, ca), (ra, ca), (ra, t)]);
        }
    }
    if rng.coin(1, 2) && nr + 3 < 12 && nc + 3 < 12 { // a much longer second cycle through row 0 and column 0
        let (r1, r2, c1, c2) = (nr, nr + 1, nc, nc + 1);
        nr += 2; nc += 2;
        edges.extend([(0, c1), (r1, c1), (r1, c2), (r2, c2), (r2, 0)]);
    }
    if rng.coin(1, 2) && nr + 1 < 9 && nc + 1 < 10 { // a second, longer cycle through row 0 and column 0
        let (ra, ca) = (nr, nc);
        nr += 1; nc += 1;
        edges.extend([(0, ca), (ra, ca), (ra, 0)]);
    }
    rng.shuffle(&mut edges);
    let mut rows: Vec<Vec<usize>> = vec![vec![]; nr];
    for (r, c) in edges { if !rows[r].contains(&c) { rows[r].push(c); } }
    (rows, nc)
}

pub fn generate(a: &Args) {
    let mut out = Out::create(&a.out);
    let mut rng = Rng::new(a.seed ^ 0xC11);
    if is_thorough(a) {
        all_graphs(&mut out, 3, 4, 1);
        all_graphs(&mut out, 4, 3, 1);
        all_graphs(&mut out, 2, 5, 1);
        all_graphs(&mut out, 4, 4, 3); // every 3rd 4x4 graph
    } else {
        all_graphs(&mut out, 3, 3, 1);
        all_graphs(&mut out, 2, 4, 1);
        all_graphs(&mut out, 3, 4, 11);
    }
    let nrand = if is_thorough(a) { 8000 } else { 400 };
    for i in 0..nrand {
        let (rows, nc) = random_graph(&mut rng, i);
        let nr = rows.len();
        let mut roots: Vec<usize> = (0..nr + nc).collect();
        rng.shuffle(&mut roots);
        roots.truncate(if is_thorough(a) { 8 } else { 5 });
        graph_events(&mut out, &rows, nc, &roots);
    }
    // cactus graphs, each built through three different insertion histories, every node as root
    for i in 0..(if is_thorough(a) { 1500 } else { 120 }) {
        let (rows, nc) = cactus(&mut rng);
        let roots: Vec<usize> = (0..rows.len() + nc).collect();
        graph_events_order(&mut out, &rows, nc, &roots, None);
        for sh in 0..5u64 { graph_events_order(&mut out, &rows, nc, &roots, Some(1000 + 97 * i as u64 + 7919 * sh)); }
    }
    out.finish();
}
