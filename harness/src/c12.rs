//! C12: what the real BER chain hands to the decoder (recording decoder injected through DecoderFactory),
//! the sizes/rate the simulator reports, and LLR moment statistics against a reference chain.
use crate::bersup::*;
use crate::decoders::matrix;
use crate::util::*;
use ldpc_toolbox::gf2::GF2;
use ldpc_toolbox::simulation::factory::{BerTestBuilder, Modulation as ModSel};
use ldpc_toolbox::simulation::modulation::{BpskDemodulator, BpskModulator, Demodulator, Modulator, Psk8Demodulator, Psk8Modulator};
use ndarray::Array1;
use num_complex::Complex;
use num_traits::{One, Zero};
use serde_json::{Value, json};
use std::sync::Arc;

struct Cfg { ncw: usize, r: usize, psk8: bool, pat: Option<Vec<bool>>, il: Option<isize> }

fn cfg_json(c: &Cfg, rows: &[Vec<usize>]) -> Value {
    json!({"ncw": c.ncw, "k": c.ncw - c.r, "rows": rows, "bps": if c.psk8 { 3 } else { 1 },
        "usep": c.pat.is_some(), "pat": c.pat.clone().unwrap_or(vec![true]).iter().map(|&b| b as u8).collect::<Vec<_>>(),
        "useil": c.il.is_some(), "C": c.il.map(|x| x.unsigned_abs()).unwrap_or(1), "back": c.il.map(|x| x < 0).unwrap_or(false)})
}

fn fits(c: &Cfg) -> bool {
    let (len, tr) = match &c.pat { Some(p) => (p.len(), p.iter().filter(|&&b| b).count()), None => (1, 1) };
    if c.ncw % len != 0 { return false; }
    let ntx = c.ncw / len * tr;
    if let Some(i) = c.il { if ntx % i.unsigned_abs() != 0 { return false; } }
    if c.psk8 && ntx % 3 != 0 { return false; }
    true
}

fn run_chain(out: &mut Out, c: &Cfg, salt: u64) {
    // every other configuration uses a code whose parity part is not triangular (the encoder has to pivot)
    let rows = if salt % 2 == 1 { pivoting_code(c.ncw, c.r, salt) } else { systematic_code(c.ncw, c.r, salt) };
    let k = c.ncw - c.r;
    let sh = shared(k, 40, 50, false);
    let good_frames: u64 = 3;
    let script: Script = Arc::new(move |_w, seq| if seq < good_frames { Act::Good { iters: 1 } } else { Act::Bad { flips: 1, ok: true, iters: 2 } });
    let target: u64 = 6;
    let cj = cfg_json(c, &rows);
    out.new_case();
    let (rows2, pat, psk8, il, ncw, sh2) = (rows.clone(), c.pat.clone(), c.psk8, c.il, c.ncw, sh.clone());
    let res = with_timeout(20, move || {
        let b = BerTestBuilder { h: matrix(&rows2, ncw), decoder_implementation: ScriptedFactory { shared: sh2, script },
            modulation: if psk8 { ModSel::Psk8 } else { ModSel::Bpsk }, puncturing_pattern: pat.as_deref(), interleaving_columns: il,
            max_frame_errors: target, max_iterations: 10, ebn0s_db: &[35.0], reporter: None, bch_max_errors: 0 };
        let t = b.build().map_err(|e| e.to_string())?;
        let sizes = (t.n(), t.n_cw(), t.k(), t.rate());
        let st = t.run().map_err(|e| e.to_string())?;
        Ok::<_, String>((sizes, st))
    });
    let res = match res { Some(r) => r, None => { out.ev("Run", "hang", json!({"cfg": cj})); return; } };
    match res {
        Ok(Ok((sizes, st))) => {
            for f in sh.frames.lock().unwrap().iter() {
                out.ev("Frame", "ok", json!({"cfg": cj, "worker": f.worker, "seq": f.seq, "len": f.len, "zero_pos": f.zero_pos, "hard": f.hard, "act": f.act}));
            }
            let s = &st[0];
            out.ev("Run", "ok", json!({"cfg": cj, "target": target, "frames": s.num_frames, "ferr": s.ldpc.frame_errors, "berr": s.ldpc.bit_errors,
                "fdec": s.false_decodes, "n": sizes.0, "ncw_rep": sizes.1, "k_rep": sizes.2, "rate_u": (sizes.3 * 1e6).round() as i64, "stats_len": st.len()}));
        }
        Ok(Err(e)) => out.ev("Run", "error", json!({"cfg": cj, "msg": e})),
        Err(m) => out.ev("Run", "panic", json!({"cfg": cj, "msg": m})),
    }
}

fn sizes_event(out: &mut Out, ncw: usize, r: usize, pat: &[bool]) {
    out.new_case();
    let rows = systematic_code(ncw, r, 7);
    let res = guarded(|| {
        let sh = shared(ncw - r, 0, 0, false);
        let script: Script = Arc::new(|_, _| Act::Invert);
        let b = BerTestBuilder { h: matrix(&rows, ncw), decoder_implementation: ScriptedFactory { shared: sh, script }, modulation: ModSel::Bpsk,
            puncturing_pattern: Some(pat), interleaving_columns: None, max_frame_errors: 1, max_iterations: 1, ebn0s_db: &[1.0], reporter: None, bch_max_errors: 0 };
        b.build().map(|t| (t.n(), t.n_cw(), t.k(), t.rate())).map_err(|e| e.to_string())
    });
    let p01: Vec<u8> = pat.iter().map(|&b| b as u8).collect();
    match res {
        Ok(Ok(s)) => out.ev("Sizes", "ok", json!({"ncw": ncw, "k": ncw - r, "pat": p01, "n": s.0, "ncw_rep": s.1, "k_rep": s.2, "rate_u": (s.3 * 1e6).round() as i64})),
        Ok(Err(e)) => out.ev("Sizes", "error", json!({"ncw": ncw, "k": ncw - r, "pat": p01, "msg": e})),
        Err(m) => out.ev("Sizes", "panic", json!({"ncw": ncw, "k": ncw - r, "pat": p01, "msg": m})),
    }
}

fn gf(b: bool) -> GF2 { if b { GF2::one() } else { GF2::zero() } }

/// `first`: when given, the run is a SWEEP over two Eb/N0 points [first, ebn0_db] and the event describes the SECOND point (its
/// frames are those of the decoders built for it): the noise level must be that of each requested point, not of the first one
fn noise_run(out: &mut Out, c: &Cfg, ebn0_db: f32, salt: u64, rng: &mut Rng, nllr: usize) { noise_run2(out, c, None, ebn0_db, salt, rng, nllr) }
fn noise_run2(out: &mut Out, c: &Cfg, first: Option<f32>, ebn0_db: f32, salt: u64, rng: &mut Rng, nllr: usize) {
    let rows = systematic_code(c.ncw, c.r, salt);
    let k = c.ncw - c.r;
    let (plen, ptr) = match &c.pat { Some(p) => (p.len(), p.iter().filter(|&&b| b).count()), None => (1, 1) };
    let n = c.ncw / plen * ptr; // transmitted bits per frame
    let bps = if c.psk8 { 3.0 } else { 1.0 };
    let frames = (nllr / n).max(50) as u64;
    let sh = shared(k, 0, 0, true);
    let script: Script = Arc::new(|_, _| Act::Invert);
    let cj = cfg_json(c, &rows);
    out.new_case();
    let (rows2, pat, psk8, il, ncw, sh2) = (rows.clone(), c.pat.clone(), c.psk8, c.il, c.ncw, sh.clone());
    let res = with_timeout(120, move || {
        let b = BerTestBuilder { h: matrix(&rows2, ncw), decoder_implementation: ScriptedFactory { shared: sh2, script }, modulation: if psk8 { ModSel::Psk8 } else { ModSel::Bpsk },
            puncturing_pattern: pat.as_deref(), interleaving_columns: il, max_frame_errors: frames, max_iterations: 1, ebn0s_db: &(match first { Some(f) => vec![f, ebn0_db], None => vec![ebn0_db] }), reporter: None, bch_max_errors: 0 };
        b.build().map_err(|e| e.to_string())?.run().map_err(|e| e.to_string())
    });
    let res = match res { Some(r) => r, None => { out.ev("Noise", "hang", json!({"cfg": cj})); return; } };
    if let Err(m) = &res { out.ev("Noise", "panic", json!({"cfg": cj, "msg": m})); return; }
    if let Ok(Err(e)) = &res { out.ev("Noise", "error", json!({"cfg": cj, "msg": e})); return; }
    let mut eng = sh.llr_stats.lock().unwrap().clone();
    if first.is_some() {
        // moments of the second point only: the decoders of the second half of the build order
        let by = sh.llr_by_dec.lock().unwrap();
        let w = sh.built.load(std::sync::atomic::Ordering::SeqCst) / 2;
        let second = LlrStats::merged(by.iter().filter(|(id, _)| **id >= w).map(|(_, s)| s));
        eng.n = second.n; eng.sum_abs = second.sum_abs; eng.sum_sq = second.sum_sq; eng.sum = second.sum; eng.sum_lag1 = second.sum_lag1; eng.n_lag1 = second.n_lag1;
    }
    // reference chain: sigma from the formula of Chain.tla / the statement, public modulator + own Gaussian + public demodulator
    let ebn0 = 10f64.powf(0.1 * f64::from(ebn0_db));
    let rate = k as f64 / n as f64;
    let sig2 = 1.0 / (2.0 * rate * bps * ebn0);
    let sigma = sig2.sqrt();
    let mut reference = LlrStats::default();
    let rframes = (eng.n as usize / n).max(50);
    // the reference chain sends CODEWORDS of the same code (own encoding: the tail of `systematic_code` is unit lower triangular, so the
    // parity bits follow by forward substitution), punctured and interleaved at the same positions: a code may have a parity bit that
    // is constant (two checks with equal systematic parts), and then the LLRs are NOT zero-mean - the reference has the same bias.
    // Its own generator: the number of frames the engine delivered (timing dependent) must not shift anything else
    let mut rng = Rng::new(salt ^ 0x5EED_C12);
    let rng = &mut rng;
    let il_obj = c.il.map(|i| ldpc_toolbox::simulation::interleaving::Interleaver::new(i.unsigned_abs(), i < 0));
    let pu_obj = c.pat.as_ref().map(|p| ldpc_toolbox::simulation::puncturing::Puncturer::new(p));
    for _ in 0..rframes {
        let mut cw: Vec<bool> = (0..k).map(|_| rng.next() & 1 == 1).collect();
        for row in rows.iter() {
            let own = *row.last().unwrap();
            let p = row.iter().filter(|&&v| v != own).fold(false, |a, &v| a ^ cw[v]);
            debug_assert_eq!(own, cw.len());
            cw.push(p);
        }
        let cw: Array1<GF2> = Array1::from_iter(cw.iter().map(|&b| gf(b)));
        let tx = match &pu_obj { Some(p) => p.puncture(&cw).expect("fits"), None => cw };
        let bits: Array1<GF2> = match &il_obj { Some(i) => i.interleave(&tx), None => tx };
        assert_eq!(bits.len(), n);
        let llrs: Vec<f64> = if c.psk8 {
            let mut s = Psk8Modulator::new().modulate(&bits);
            for x in s.iter_mut() { *x += Complex::new(rng.gauss() * sigma, rng.gauss() * sigma); }
            // the harness's own exact posterior (c14.rs), not the demodulator under test: "correctly scaled LLRs"
            s.iter().flat_map(|&r| crate::c14::posterior8(r, sigma).0).collect::<Vec<f64>>()
        } else {
            let mut s = BpskModulator::new().modulate(&bits);
            for x in s.iter_mut() { *x += rng.gauss() * sigma; }
            s.iter().map(|&x| -2.0 * x / (sigma * sigma)).collect::<Vec<f64>>()
        };
        reference.add_frame(&llrs, false);
    }
    let e4 = |x: f64| (x * 1e4).round().min(2.0e9) as i64;
    let uselag = c.pat.is_none() && c.il.is_none();
    out.ev("Noise", "ok", json!({"cfg": cj, "ebn0_e3": (ebn0 * 1e3).round() as i64, "n": n, "sig2_e4": e4(sig2), "N": eng.n, "Nref": reference.n,
        "ma_e": e4(eng.sum_abs / eng.n as f64), "ma_r": e4(reference.sum_abs / reference.n as f64),
        "m2_e": e4(eng.sum_sq / eng.n as f64), "m2_r": e4(reference.sum_sq / reference.n as f64),
        "mean_e": e4(eng.sum / eng.n as f64), "mean_r": e4(reference.sum / reference.n as f64), "uselag": uselag,
        // every transmitted position must carry noise: number of distinct LLR values seen there (capped at 64) over `frames` frames
        "pos_distinct": eng.pos_distinct.iter().map(|s| s.len()).collect::<Vec<_>>(), "frames": eng.frames,
        // independence between frames and between workers: no LLR vector is ever delivered twice
        "dup_frames": eng.dup_frames, "workers": eng.decoders.len(),
        "lag_e": e4(eng.sum_lag1 / eng.n_lag1.max(1) as f64), "lag_r": e4(reference.sum_lag1 / reference.n_lag1.max(1) as f64)}));
}

pub fn generate(a: &Args) {
    let mut out = Out::create(&a.out);
    let mut rng = Rng::new(a.seed ^ 0xC12);
    let th = is_thorough(a);
    // sizes: every pattern up to length 7 with a TRUE x codeword sizes that fit (includes 6-of-7 x 35, 10-of-11 x 33, ...)
    let maxp = if th { 9 } else { 7 };
    for plen in 1..=maxp {
        for x in 1u32..(1u32 << plen) {
            if !th && plen >= 6 && x % 5 != 0 && x.count_ones() != plen as u32 - 1 { continue; }
            let pat: Vec<bool> = (0..plen).map(|k| (x >> k) & 1 == 1).collect();
            for mult in [1usize, 3, 5] {
                let ncw = plen * mult;
                if ncw < 2 { continue; }
                sizes_event(&mut out, ncw, (ncw / 3).max(1), &pat);
            }
        }
    }
    for (ncw, plen) in [(33usize, 11usize), (35, 7), (9, 9), (63, 9), (39, 13)] {
        let mut pat = vec![true; plen];
        pat[plen / 2] = false;
        sizes_event(&mut out, ncw, ncw / 3, &pat);
        if plen > 2 { pat[0] = false; sizes_event(&mut out, ncw, ncw / 3, &pat); }
    }
    // chain order: {BPSK, 8PSK} x {none, patterns} x {none, +-columns} that fit, on three code sizes
    let pats: Vec<Option<Vec<bool>>> = vec![None, Some(vec![true, true, false, true]), Some(vec![true, false, true]), Some(vec![true, true, true, false, true, true]),
        Some(vec![false, true, true, true])];
    let ils: Vec<Option<isize>> = vec![None, Some(2), Some(-2), Some(3), Some(-3), Some(5), Some(-5), Some(4)];
    let codes = [(12usize, 6usize), (24, 12), (36, 12), (30, 10)];
    let mut count = 0;
    for &(ncw, r) in &codes { for psk8 in [false, true] { for pat in &pats { for il in &ils {
        let c = Cfg { ncw, r, psk8, pat: pat.clone(), il: *il };
        if !fits(&c) { continue; }
        count += 1;
        if !th && count % 3 != (a.seed % 3) as usize && !(pat.is_some() && il.is_some()) { continue; }
        run_chain(&mut out, &c, rng.next());
    } } } }
    // noise level
    let nllr = if th { 1_500_000 } else { 120_000 };
    let noise_cfgs = vec![
        Cfg { ncw: 24, r: 12, psk8: false, pat: None, il: None },
        Cfg { ncw: 24, r: 12, psk8: true, pat: None, il: None },
        Cfg { ncw: 24, r: 12, psk8: false, pat: Some(vec![true, true, false, true]), il: None },
        Cfg { ncw: 24, r: 12, psk8: true, pat: Some(vec![true, true, false, true]), il: Some(3) },
        Cfg { ncw: 36, r: 12, psk8: false, pat: Some(vec![true, false, true]), il: Some(-2) },
        Cfg { ncw: 35, r: 10, psk8: false, pat: Some(vec![true, true, true, false, true, true, true]), il: None },
        // odd numbers of channel symbols per frame
        Cfg { ncw: 21, r: 9, psk8: false, pat: None, il: None },
        Cfg { ncw: 27, r: 12, psk8: true, pat: None, il: None },
        Cfg { ncw: 20, r: 8, psk8: true, pat: Some(vec![true, true, true, false]), il: None },
    ];
    // sweeps over two points in one run, judged at the second point
    for (ci, c) in noise_cfgs.iter().enumerate().filter(|(ci, _)| ci % 4 == 0 || th) {
        noise_run2(&mut out, c, Some(if ci % 2 == 0 { 1.0 } else { 8.0 }), 4.5, (a.seed ^ 0xC12).wrapping_mul(1000003) + 500 + ci as u64, &mut rng, nllr);
    }
    for (ci, c) in noise_cfgs.iter().enumerate() {
        // the code (salt) of each noise run depends on the seed and the configuration only
        for (di, db) in [2.0f32, 6.0].into_iter().enumerate() { noise_run(&mut out, c, db, (a.seed ^ 0xC12).wrapping_mul(1000003) + (ci * 2 + di) as u64, &mut rng, nllr); }
    }
    out.finish();
}
