//! Shared plumbing of the harness: trace writer, deterministic RNG, panic capture.
use serde_json::{Map, Value, json};
use std::fs::File;
use std::io::{BufWriter, Write};
use std::panic::{AssertUnwindSafe, catch_unwind};

/// Writes NDJSON events. Every event carries `i` (case id), `e` (event name), `o` (outcome).
pub struct Out {
    w: BufWriter<File>,
    pub case: i64,
    pub events: u64,
}

impl Out {
    pub fn create(path: &str) -> Out {
        let f = File::create(path).unwrap_or_else(|e| {
            eprintln!("vh: cannot create {path}: {e}");
            std::process::exit(2)
        });
        Out { w: BufWriter::new(f), case: 0, events: 0 }
    }
    pub fn new_case(&mut self) -> i64 {
        self.case += 1;
        self.case
    }
    /// Emit an event; `fields` must be a JSON object.
    pub fn ev(&mut self, e: &str, o: &str, fields: Value) {
        let mut m = Map::new();
        m.insert("i".into(), json!(self.case));
        m.insert("e".into(), json!(e));
        m.insert("o".into(), json!(o));
        if let Value::Object(f) = fields {
            for (k, v) in f {
                m.insert(k, v);
            }
        }
        serde_json::to_writer(&mut self.w, &Value::Object(m)).unwrap();
        self.w.write_all(b"\n").unwrap();
        self.events += 1;
    }
    pub fn finish(mut self) {
        self.w.flush().unwrap();
    }
}

/// splitmix64: small deterministic generator independent of any crate version.
#[derive(Clone)]
pub struct Rng(pub u64);
impl Rng {
    pub fn new(seed: u64) -> Rng {
        Rng(seed.wrapping_mul(0x9E37_79B9_7F4A_7C15) ^ 0xD1B5_4A32_D192_ED03)
    }
    pub fn next(&mut self) -> u64 {
        self.0 = self.0.wrapping_add(0x9E37_79B9_7F4A_7C15);
        let mut z = self.0;
        z = (z ^ (z >> 30)).wrapping_mul(0xBF58_476D_1CE4_E5B9);
        z = (z ^ (z >> 27)).wrapping_mul(0x94D0_49BB_1331_11EB);
        z ^ (z >> 31)
    }
    /// uniform in 0..n (n > 0)
    pub fn below(&mut self, n: usize) -> usize {
        (self.next() % (n as u64)) as usize
    }
    pub fn range(&mut self, lo: i64, hi: i64) -> i64 {
        lo + (self.next() % ((hi - lo + 1) as u64)) as i64
    }
    pub fn coin(&mut self, num: u64, den: u64) -> bool {
        self.next() % den < num
    }
    pub fn unit(&mut self) -> f64 {
        (self.next() >> 11) as f64 / (1u64 << 53) as f64
    }
    /// standard normal (Box-Muller)
    pub fn gauss(&mut self) -> f64 {
        let u1 = (1.0 - self.unit()).max(1e-300);
        let u2 = self.unit();
        (-2.0 * u1.ln()).sqrt() * (2.0 * std::f64::consts::PI * u2).cos()
    }
    pub fn pick<'a, T>(&mut self, xs: &'a [T]) -> &'a T {
        &xs[self.below(xs.len())]
    }
    pub fn shuffle<T>(&mut self, xs: &mut [T]) {
        for i in (1..xs.len()).rev() {
            let j = self.below(i + 1);
            xs.swap(i, j);
        }
    }
}

/// Run `f`; a panic in the code under test is data, not a harness failure.
pub fn guarded<T>(f: impl FnOnce() -> T) -> Result<T, String> {
    match catch_unwind(AssertUnwindSafe(f)) {
        Ok(v) => Ok(v),
        Err(p) => {
            let msg = if let Some(s) = p.downcast_ref::<&str>() {
                s.to_string()
            } else if let Some(s) = p.downcast_ref::<String>() {
                s.clone()
            } else {
                "panic".to_string()
            };
            Err(msg)
        }
    }
}

pub fn quiet_panics() {
    std::panic::set_hook(Box::new(|_| {}));
}

pub struct Args {
    pub tier: String,
    pub seed: u64,
    pub out: String,
    pub input: Option<String>,
    pub extra: Vec<String>,
}

pub fn is_thorough(a: &Args) -> bool {
    a.tier == "thorough"
}
