//! C01: every one of the 36 factory-built decoders on random codes and LLR classes; C01Rel is TLC's.
use crate::decoders::*;
use crate::util::*;
use serde_json::json;

pub fn decode_event(out: &mut Out, name: &str, rows: &[Vec<usize>], n: usize, llrs: &[f64], limit: usize, cls: usize) {
    out.new_case();
    let base = json!({"impl": name, "rows": rows, "n": n, "hard_in": hard_in(llrs), "limit": limit, "cls": cls});
    let res = guarded(|| {
        let mut d = build(name, matrix(rows, n)).expect("factory name");
        d.decode(llrs, limit)
    });
    let mut ev = base;
    match res {
        Ok(r) => {
            let rj = result_json(&r);
            ev["verdict"] = rj["verdict"].clone();
            ev["word"] = rj["word"].clone();
            ev["iters"] = rj["iters"].clone();
            out.ev("Decode", "ok", ev);
        }
        Err(m) => {
            ev["msg"] = json!(m);
            ev["llrs_dbg"] = json!(llrs.iter().map(|x| format!("{x:e}")).collect::<Vec<_>>());
            out.ev("Decode", "panic", ev);
        }
    }
}

pub fn generate(a: &Args) {
    let mut out = Out::create(&a.out);
    let mut rng = Rng::new(a.seed ^ 0xC01);
    let per_impl = if is_thorough(a) { 6000 } else { 130 };
    let limits = [0usize, 1, 2, 5, 50];
    for (k, name) in NAMES.iter().enumerate() {
        for i in 0..per_impl {
            let (rows, n) = if i % 10 == 9 { random_code(&mut rng, i + k, 12, 24) } else { random_code(&mut rng, i + k, 5, 10) };
            let cls = i + k;
            let llrs = llr_vector(&mut rng, n, cls);
            let limit = limits[(i / 3 + k) % limits.len()];
            decode_event(&mut out, name, &rows, n, &llrs, limit, cls % 13);
        }
    }
    // runaway messages: repeated checks let two variables reinforce each other without bound, so float messages overflow to
    // infinity (f32 within ~50 layered iterations, f64 within a few thousand) and beyond (inf - inf); a decoder must still RETURN
    for name in NAMES.iter() {
        let rows: Vec<Vec<usize>> = vec![vec![0, 5], vec![0, 5], vec![0, 5], vec![0, 5], vec![1, 2, 3, 8, 9]];
        let llrs = [-0.6875, 0.5625, -0.5, -0.875, 0.3125, -2.0625, 1.8125, -1.0, 1.25, -0.125];
        for limit in [50usize, 400, 3000] { decode_event(&mut out, name, &rows, 10, &llrs, limit, 13); }
        let rows2: Vec<Vec<usize>> = vec![vec![0, 1], vec![0, 1], vec![0, 1], vec![1, 2], vec![1, 2], vec![2, 3]];
        let llrs2 = [3.5, 2.25, -0.5, 1.0];
        for limit in [60usize, 3000] { decode_event(&mut out, name, &rows2, 4, &llrs2, limit, 13); }
    }
    if is_thorough(a) {
        // real codes: DVB-S2 short 1/2 (16200 x 7200 checks... n = 16200) and CCSDS AR4JA 1/2 k=1024; all-zero codeword + Gaussian noise
        use ldpc_toolbox::codes::ccsds::{AR4JACode, AR4JAInfoSize, AR4JARate};
        use ldpc_toolbox::codes::dvbs2::Code as DvbCode;
        let codes = [DvbCode::R1_2short.h(), AR4JACode::new(AR4JARate::R1_2, AR4JAInfoSize::K1024).h()];
        for h in codes.iter() {
            let n = h.num_cols();
            let rows: Vec<Vec<usize>> = (0..h.num_rows()).map(|r| h.iter_row(r).copied().collect()).collect();
            for (k, name) in NAMES.iter().enumerate() {
                let sigma = [0.6, 0.8, 1.0][k % 3];
                let llrs: Vec<f64> = (0..n).map(|_| 2.0 / (sigma * sigma) * (1.0 + sigma * rng.gauss())).collect();
                decode_event(&mut out, name, &rows, n, &llrs, [10usize, 3, 25][k % 3], 99);
            }
        }
    }
    out.finish();
}
