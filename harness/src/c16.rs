//! C16: MacKay-Neal and PEG constructions over a grid of configurations and seeds; the final matrix is sent as
//! an insertion trace (column j = rows in insertion order). Reproducibility and the parallel seed search.
use crate::decoders::fnv;
use crate::util::*;
use ldpc_toolbox::mackay_neal::{Config as MknConfig, FillPolicy};
use ldpc_toolbox::peg::Config as PegConfig;
use ldpc_toolbox::sparse::SparseMatrix;
use serde_json::{Value, json};

fn cols_of(h: &SparseMatrix) -> Vec<Vec<usize>> {
    (0..h.num_cols()).map(|c| h.iter_col(c).copied().collect()).collect()
}

fn mkn_json(c: &MknConfig) -> Value {
    json!({"nr": c.nrows, "nc": c.ncols, "wr": c.wr, "wc": c.wc, "bt_cols": c.backtrack_cols, "bt_trials": c.backtrack_trials,
        "min_girth": c.min_girth.map(|g| g as i64).unwrap_or(-1), "trials": c.girth_trials, "uniform": c.fill_policy == FillPolicy::Uniform})
}

fn mkn_event(out: &mut Out, c: &MknConfig, seed: u64) -> Option<Vec<Vec<usize>>> {
    out.new_case();
    match guarded(|| c.run(seed)) {
        Ok(Ok(h)) => {
            let cols = cols_of(&h);
            let dims_ok = h.num_rows() == c.nrows && h.num_cols() == c.ncols;
            out.ev("Mkn", if dims_ok { "ok" } else { "baddims" }, json!({"cfg": mkn_json(c), "seed": seed, "res": "ok", "cols": cols}));
            Some(cols)
        }
        Ok(Err(e)) => { out.ev("Mkn", "ok", json!({"cfg": mkn_json(c), "seed": seed, "res": "err", "cols": [], "err": e.to_string()})); None }
        Err(m) => { out.ev("Mkn", "panic", json!({"cfg": mkn_json(c), "seed": seed, "msg": m})); None }
    }
}

fn peg_event(out: &mut Out, c: &PegConfig, seed: u64) -> Option<Vec<Vec<usize>>> {
    out.new_case();
    let cj = json!({"nr": c.nrows, "nc": c.ncols, "wc": c.wc});
    match guarded(|| c.run(seed)) {
        Ok(Ok(h)) => {
            let cols = cols_of(&h);
            let dims_ok = h.num_rows() == c.nrows && h.num_cols() == c.ncols;
            out.ev("Peg", if dims_ok { "ok" } else { "baddims" }, json!({"cfg": cj, "seed": seed, "res": "ok", "cols": cols}));
            Some(cols)
        }
        Ok(Err(e)) => { out.ev("Peg", "ok", json!({"cfg": cj, "seed": seed, "res": "err", "cols": [], "err": e.to_string()})); None }
        Err(m) => { out.ev("Peg", "panic", json!({"cfg": cj, "seed": seed, "msg": m})); None }
    }
}

pub fn generate(a: &Args) {
    let mut out = Out::create(&a.out);
    let mut rng = Rng::new(a.seed ^ 0xC16);
    let th = is_thorough(a);
    let nseeds = if th { 20 } else { 6 };
    // MacKay-Neal grid
    let mut mcfgs: Vec<MknConfig> = vec![];
    for &(nr, nc) in &[(3usize, 4usize), (4, 8), (6, 12), (8, 12), (9, 18), (12, 24), (5, 7)] {
        for &wc in &[1usize, 2, 3] {
            if wc > nr { continue; }
            let exact = (nc * wc + nr - 1) / nr;
            for &wr in &[exact, exact + 1] {
                for uniform in [false, true] {
                    for &mg in &[None, Some(4usize), Some(5), Some(6), Some(7), Some(8)] {
                        for &(bc, bt) in &[(0usize, 0usize), (2, 5)] {
                            if !th && (mcfgs.len() % 3 != (a.seed % 3) as usize) && !(bt > 0 && !uniform && wr > exact) { mcfgs.push(MknConfig { nrows: 0, ncols: 0, wr: 0, wc: 0, backtrack_cols: 0, backtrack_trials: 0, min_girth: None, girth_trials: 0, fill_policy: FillPolicy::Random }); continue; }
                            mcfgs.push(MknConfig { nrows: nr, ncols: nc, wr, wc, backtrack_cols: bc, backtrack_trials: bt, min_girth: mg,
                                girth_trials: if mg.is_some() { 30 } else { 0 }, fill_policy: if uniform { FillPolicy::Uniform } else { FillPolicy::Random } });
                        }
                    }
                }
            }
        }
    }
    mcfgs.retain(|c| c.nrows > 0);
    // sparse shapes with column weight 3 on which a girth of 6 or 8 IS achievable (the dense shapes above mostly fail under a girth
    // constraint, and failures are not judged): many candidate columns are tried per column
    for &(nr, nc, wr, wc) in &[(9usize, 12usize, 4usize, 3usize), (12, 16, 4, 3), (16, 20, 5, 3), (8, 10, 5, 3)] {
        for uniform in [false, true] {
            for &mg in &[6usize, 8] {
                if !th && (mcfgs.len() + a.seed as usize) % 2 == 0 { mcfgs.push(MknConfig { nrows: 0, ncols: 0, wr: 0, wc: 0, backtrack_cols: 0, backtrack_trials: 0, min_girth: None, girth_trials: 0, fill_policy: FillPolicy::Random }); continue; }
                mcfgs.push(MknConfig { nrows: nr, ncols: nc, wr, wc, backtrack_cols: 1, backtrack_trials: 5, min_girth: Some(mg), girth_trials: 200,
                    fill_policy: if uniform { FillPolicy::Uniform } else { FillPolicy::Random } });
            }
        }
    }
    mcfgs.retain(|c| c.nrows > 0);
    // over-subscribed configurations (ncols * wc > nrows * wr): every seed must FAIL; a matrix returned here has a row above wr
    for &(nr, nc, wc) in &[(4usize, 9usize, 2usize), (3, 4, 2), (6, 12, 3), (5, 7, 2), (8, 12, 3)] {
        let exact = (nc * wc + nr - 1) / nr;
        if exact < 2 { continue; }
        for uniform in [false, true] {
            for &(bc, bt) in &[(0usize, 0usize), (2, 5)] {
                mcfgs.push(MknConfig { nrows: nr, ncols: nc, wr: exact - 1, wc, backtrack_cols: bc, backtrack_trials: bt, min_girth: None, girth_trials: 0,
                    fill_policy: if uniform { FillPolicy::Uniform } else { FillPolicy::Random } });
            }
        }
    }
    for c in &mcfgs {
        let s0 = rng.next() % 1000;
        let mut digests = vec![];
        for s in s0..s0 + nseeds {
            if let Some(cols) = mkn_event(&mut out, c, s) { digests.push(fnv(format!("{cols:?}").as_bytes())); }
        }
        if c.nrows > c.wc && c.ncols >= 4 && c.min_girth.is_none() {
            out.new_case();
            out.ev("Seeds", "ok", json!({"kind": "mkn", "cfg": mkn_json(c), "digests": digests, "ok": digests.len()}));
        }
    }
    // backtracking with spare row capacity and the Random policy (columns must still have weight exactly wc)
    for i in 0..(if th { 600 } else { 160 }) {
        let c = MknConfig { nrows: 4 + i % 4, ncols: 10 + i % 5, wr: 8, wc: 3, backtrack_cols: 1 + i % 3, backtrack_trials: 50, min_girth: None, girth_trials: 0, fill_policy: FillPolicy::Random };
        let c = MknConfig { wr: (c.ncols * c.wc + c.nrows - 1) / c.nrows + 1, ..c };
        mkn_event(&mut out, &c, rng.next() % 100000);
    }
    // PEG grid
    let mut pcfgs = vec![];
    for &(nr, nc) in &[(3usize, 4usize), (4, 8), (6, 12), (8, 16), (12, 24), (5, 9), (2, 5)] {
        for &wc in &[1usize, 2, 3, 4] { pcfgs.push(PegConfig { nrows: nr, ncols: nc, wc }); }
    }
    for c in &pcfgs {
        let s0 = rng.next() % 1000;
        let mut digests = vec![];
        for s in s0..s0 + nseeds.min(if c.nrows >= 12 { 3 } else { 20 }) {
            if let Some(cols) = peg_event(&mut out, c, s) { digests.push(fnv(format!("{cols:?}").as_bytes())); }
        }
        if c.nrows > c.wc && c.ncols >= 4 {
            out.new_case();
            out.ev("Seeds", "ok", json!({"kind": "peg", "digests": digests, "ok": digests.len()}));
        }
    }
    // reproducibility: same config and seed twice, and once on another thread
    for (i, c) in mcfgs.iter().enumerate().filter(|(i, _)| i % 7 == 0) {
        out.new_case();
        let seed = 1000 + i as u64;
        let r = |c: &MknConfig| guarded(|| c.run(seed).ok().map(|h| cols_of(&h))).unwrap_or(None);
        let (a1, b1) = (r(c), r(c));
        let c2 = c.clone();
        let c1 = std::thread::spawn(move || guarded(|| c2.run(seed).ok().map(|h| cols_of(&h))).unwrap_or(None)).join().unwrap_or(None);
        out.ev("Twice", "ok", json!({"kind": "mkn", "a": a1.clone().unwrap_or_default(), "b": b1.unwrap_or_default(), "c": c1.unwrap_or_default(), "succeeded": a1.is_some()}));
    }
    for (i, c) in pcfgs.iter().enumerate() {
        out.new_case();
        let seed = 2000 + i as u64;
        let r = |c: &PegConfig| guarded(|| c.run(seed).ok().map(|h| cols_of(&h))).unwrap_or(None);
        let (a1, b1) = (r(c), r(c));
        let c2 = c.clone();
        let c1 = std::thread::spawn(move || guarded(|| c2.run(seed).ok().map(|h| cols_of(&h))).unwrap_or(None)).join().unwrap_or(None);
        out.ev("Twice", "ok", json!({"kind": "peg", "a": a1.clone().unwrap_or_default(), "b": b1.unwrap_or_default(), "c": c1.unwrap_or_default(), "succeeded": a1.is_some()}));
    }
    // parallel seed search under 1, 4, 16 rayon threads; configurations where a fraction of the seeds succeed
    let scfgs = [
        MknConfig { nrows: 6, ncols: 12, wr: 6, wc: 3, backtrack_cols: 0, backtrack_trials: 0, min_girth: Some(6), girth_trials: 4, fill_policy: FillPolicy::Random },
        MknConfig { nrows: 5, ncols: 10, wr: 4, wc: 2, backtrack_cols: 0, backtrack_trials: 0, min_girth: None, girth_trials: 0, fill_policy: FillPolicy::Random },
        MknConfig { nrows: 8, ncols: 12, wr: 5, wc: 3, backtrack_cols: 0, backtrack_trials: 0, min_girth: Some(6), girth_trials: 2, fill_policy: FillPolicy::Uniform },
        MknConfig { nrows: 4, ncols: 8, wr: 3, wc: 2, backtrack_cols: 0, backtrack_trials: 0, min_girth: None, girth_trials: 0, fill_policy: FillPolicy::Random }, // impossible: 16 > 12
    ];
    let nsearch = if th { 600 } else { 150 };
    for i in 0..nsearch {
        let c = &scfgs[i % scfgs.len()];
        let start = rng.next() % 5000;
        let tries = [0u64, 1, 2, 3, 6, 20][i % 6];
        let threads = [1usize, 4, 16][i % 3];
        out.new_case();
        let ok_seeds: Vec<u64> = (start..start + tries + 2).filter(|&s| guarded(|| c.run(s).is_ok()).unwrap_or(false)).collect();
        let in_range: Vec<u64> = ok_seeds.iter().copied().filter(|&s| s < start + tries).collect();
        let res = guarded(|| {
            let pool = rayon::ThreadPoolBuilder::new().num_threads(threads).build().expect("pool");
            pool.install(|| c.search(start, tries))
        });
        match res {
            Ok(Some((seed, h))) => {
                let run_cols = guarded(|| c.run(seed).ok().map(|h| cols_of(&h))).unwrap_or(None).unwrap_or_default();
                out.ev("Search", "ok", json!({"cfg": mkn_json(c), "start": start, "tries": tries, "threads": threads, "found": true, "seed": seed, "cols": cols_of(&h), "run_cols": run_cols, "ok_seeds": in_range, "beyond": ok_seeds}));
            }
            Ok(None) => out.ev("Search", "ok", json!({"cfg": mkn_json(c), "start": start, "tries": tries, "threads": threads, "found": false, "seed": 0, "cols": [], "run_cols": [], "ok_seeds": in_range, "beyond": ok_seeds})),
            Err(m) => out.ev("Search", "panic", json!({"cfg": mkn_json(c), "start": start, "tries": tries, "msg": m})),
        }
    }
    util_events(&mut out, &mut rng, th);
    out.finish();
}

/// util.rs through the cfg-guarded hook (`ldpc_toolbox::verif_hooks`): items are (original index, key), compared by key only
fn util_events(out: &mut Out, rng: &mut Rng, th: bool) {
    use ldpc_toolbox::rand::{Rng as LRng, SeedableRng};
    use ldpc_toolbox::verif_hooks::{SortedRandomSel, compare_some};
    let sel = |keys: &[i64], n: usize, seed: u64| -> Value {
        let v: Vec<(usize, i64)> = keys.iter().copied().enumerate().map(|(i, k)| (i + 1, k)).collect();
        match v.sort_by_random_sel(n, |a, b| a.1.cmp(&b.1), &mut LRng::seed_from_u64(seed)) {
            Some(r) => json!({"none": false, "sel": r.iter().map(|x| x.0).collect::<Vec<_>>()}),
            None => json!({"none": true, "sel": []}),
        }
    };
    let min = |keys: &[i64], seed: u64| -> i64 {
        let v: Vec<(usize, i64)> = keys.iter().copied().enumerate().map(|(i, k)| (i + 1, k)).collect();
        v.sort_by_random_min(|a, b| a.1.cmp(&b.1), &mut LRng::seed_from_u64(seed)).map(|x| x.0 as i64).unwrap_or(-1)
    };
    let ncases = if th { 6000 } else { 1200 };
    for i in 0..ncases {
        // short vectors over few keys (many ties); every n from 0 to len + 1
        let len = if i < 40 { i % 4 } else { rng.below(11) };
        let nkeys = 1 + rng.below(4) as i64;
        let keys: Vec<i64> = (0..len).map(|_| rng.range(0, nkeys)).collect();
        let seed = rng.next() % 100_000;
        let n = if i % 7 == 0 { len + 1 } else if len == 0 { 0 } else { rng.below(len + 1) };
        out.new_case();
        match guarded(|| {
            let res = sel(&keys, n, seed);
            let again = sel(&keys, n, seed);
            let mut all: Vec<String> = (0..64u64).map(|s| sel(&keys, n, seed + s).to_string()).collect();
            all.sort();
            all.dedup();
            (res, again, all.len())
        }) {
            Ok((res, again, distinct)) => out.ev("Sel", "ok", json!({"keys": keys, "n": n, "seed": seed, "res": res, "again": again, "distinct": distinct})),
            Err(m) => out.ev("Sel", "panic", json!({"keys": keys, "n": n, "seed": seed, "msg": m})),
        }
        out.new_case();
        match guarded(|| {
            let res = min(&keys, seed);
            let again = min(&keys, seed);
            let mut all: Vec<i64> = (0..64u64).map(|s| min(&keys, seed + s)).collect();
            all.sort();
            all.dedup();
            (res, again, all.len())
        }) {
            Ok((res, again, distinct)) => out.ev("Min", "ok", json!({"keys": keys, "seed": seed, "res": res, "again": again, "distinct": distinct})),
            Err(m) => out.ev("Min", "panic", json!({"keys": keys, "seed": seed, "msg": m})),
        }
    }
    // compare_some, exhaustively over None (-1) and 0..3
    for x in -1i64..4 {
        for y in -1i64..4 {
            out.new_case();
            let ox = if x < 0 { None } else { Some(x) };
            let oy = if y < 0 { None } else { Some(y) };
            match guarded(|| compare_some(&ox, &oy) as i8 as i64) {
                Ok(r) => out.ev("Cmp", "ok", json!({"x": x, "y": y, "res": r})),
                Err(m) => out.ev("Cmp", "panic", json!({"x": x, "y": y, "msg": m})),
            }
        }
    }
}
