//! C04 / C05: direct calls of the 24 built-in arithmetics (check rule, variable rule, layered rule, quantiser).
//! The harness records what was called and what came back; for floating-point rules it also records a
//! high-precision reference from the oracle below and the distance to it (in centibels, 100*log10) —
//! the tolerances and every inequality live in spec/Arith.tla and are evaluated by TLC.
use crate::decoders::ARITHS;
use crate::util::*;
use ldpc_toolbox::decoder::arithmetic::*;
use ldpc_toolbox::decoder::{Message, SentMessage};
use serde_json::{Value, json};

pub trait Num: Copy + Default + std::fmt::Debug {
    fn to_f64(self) -> f64;
    fn from_f64(x: f64) -> Self;
}
impl Num for f64 {
    fn to_f64(self) -> f64 { self }
    fn from_f64(x: f64) -> Self { x }
}
impl Num for f32 {
    fn to_f64(self) -> f64 { self as f64 }
    fn from_f64(x: f64) -> Self { x as f32 }
}
impl Num for i8 {
    fn to_f64(self) -> f64 { self as f64 }
    fn from_f64(x: f64) -> Self { x as i8 }
}
impl Num for i16 {
    fn to_f64(self) -> f64 { self as f64 }
    fn from_f64(x: f64) -> Self { x as i16 }
}

/// What one call returned, in f64 (exact for i8/i16/f32/f64).
pub struct CheckOut { pub out: Vec<(usize, f64)> }
pub struct VarOut { pub ret: f64, pub out: Vec<(usize, f64)> }
pub struct LayerOut { pub news: Vec<(usize, f64)>, pub vars: Vec<f64> }

pub fn call_check<A: DecoderArithmetic>(a: &mut A, ins: &[(usize, f64)]) -> CheckOut
where A::VarMessage: Num, A::CheckMessage: Num {
    let msgs: Vec<Message<A::VarMessage>> = ins.iter().map(|&(s, v)| Message { source: s, value: A::VarMessage::from_f64(v) }).collect();
    let mut out = vec![];
    a.send_check_messages(&msgs, |m: SentMessage<A::CheckMessage>| out.push((m.dest, m.value.to_f64())));
    CheckOut { out }
}

pub fn call_var<A: DecoderArithmetic>(a: &mut A, llr: f64, ins: &[(usize, f64)]) -> VarOut
where A::Llr: Num, A::VarMessage: Num, A::CheckMessage: Num {
    let msgs: Vec<Message<A::CheckMessage>> = ins.iter().map(|&(s, v)| Message { source: s, value: A::CheckMessage::from_f64(v) }).collect();
    let mut out = vec![];
    let ret = a.send_var_messages(A::Llr::from_f64(llr), &msgs, |m: SentMessage<A::VarMessage>| out.push((m.dest, m.value.to_f64())));
    VarOut { ret: ret.to_f64(), out }
}

pub fn call_layer<A: DecoderArithmetic>(a: &mut A, olds: &[(usize, f64)], vars: &[f64]) -> LayerOut
where A::VarLlr: Num, A::CheckMessage: Num {
    let mut msgs: Vec<SentMessage<A::CheckMessage>> = olds.iter().map(|&(d, v)| SentMessage { dest: d, value: A::CheckMessage::from_f64(v) }).collect();
    let mut vs: Vec<A::VarLlr> = vars.iter().map(|&v| A::VarLlr::from_f64(v)).collect();
    a.update_check_messages_and_vars(&mut msgs, &mut vs);
    LayerOut { news: msgs.iter().map(|m| (m.dest, m.value.to_f64())).collect(), vars: vs.iter().map(|v| v.to_f64()).collect() }
}

pub fn call_quant<A: DecoderArithmetic>(a: &A, llr: f64) -> f64 where A::Llr: Num {
    a.input_llr_quantize(llr).to_f64()
}
pub fn call_hard<A: DecoderArithmetic>(a: &A, x: f64) -> bool where A::Llr: Num {
    a.llr_hard_decision(A::Llr::from_f64(x))
}
/// ToMsg of the layered schedule as the code defines it: var_llr -> llr -> var message
pub fn call_ext_to_msg<A: DecoderArithmetic>(a: &A, x: f64) -> f64 where A::VarLlr: Num, A::VarMessage: Num {
    a.llr_to_var_message(a.var_llr_to_llr(A::VarLlr::from_f64(x))).to_f64()
}

/// Dispatch a generic closure-like macro over the arithmetic type named `$name`.
#[macro_export]
macro_rules! with_arith {
    ($name:expr, $a:ident => $body:expr) => {
        match $name {
            "Phif64" => { let mut $a = if crate::arith::use_default_ctor() { <Phif64 as Default>::default() } else { Phif64::new() }; $body }
            "Phif32" => { let mut $a = if crate::arith::use_default_ctor() { <Phif32 as Default>::default() } else { Phif32::new() }; $body }
            "Tanhf64" => { let mut $a = if crate::arith::use_default_ctor() { <Tanhf64 as Default>::default() } else { Tanhf64::new() }; $body }
            "Tanhf32" => { let mut $a = if crate::arith::use_default_ctor() { <Tanhf32 as Default>::default() } else { Tanhf32::new() }; $body }
            "Minstarapproxf64" => { let mut $a = if crate::arith::use_default_ctor() { <Minstarapproxf64 as Default>::default() } else { Minstarapproxf64::new() }; $body }
            "Minstarapproxf32" => { let mut $a = if crate::arith::use_default_ctor() { <Minstarapproxf32 as Default>::default() } else { Minstarapproxf32::new() }; $body }
            "Minstarapproxi8" => { let mut $a = if crate::arith::use_default_ctor() { <Minstarapproxi8 as Default>::default() } else { Minstarapproxi8::new() }; $body }
            "Minstarapproxi8Jones" => { let mut $a = if crate::arith::use_default_ctor() { <Minstarapproxi8Jones as Default>::default() } else { Minstarapproxi8Jones::new() }; $body }
            "Minstarapproxi8PartialHardLimit" => { let mut $a = if crate::arith::use_default_ctor() { <Minstarapproxi8PartialHardLimit as Default>::default() } else { Minstarapproxi8PartialHardLimit::new() }; $body }
            "Minstarapproxi8JonesPartialHardLimit" => { let mut $a = if crate::arith::use_default_ctor() { <Minstarapproxi8JonesPartialHardLimit as Default>::default() } else { Minstarapproxi8JonesPartialHardLimit::new() }; $body }
            "Minstarapproxi8Deg1Clip" => { let mut $a = if crate::arith::use_default_ctor() { <Minstarapproxi8Deg1Clip as Default>::default() } else { Minstarapproxi8Deg1Clip::new() }; $body }
            "Minstarapproxi8JonesDeg1Clip" => { let mut $a = if crate::arith::use_default_ctor() { <Minstarapproxi8JonesDeg1Clip as Default>::default() } else { Minstarapproxi8JonesDeg1Clip::new() }; $body }
            "Minstarapproxi8PartialHardLimitDeg1Clip" => { let mut $a = if crate::arith::use_default_ctor() { <Minstarapproxi8PartialHardLimitDeg1Clip as Default>::default() } else { Minstarapproxi8PartialHardLimitDeg1Clip::new() }; $body }
            "Minstarapproxi8JonesPartialHardLimitDeg1Clip" => { let mut $a = if crate::arith::use_default_ctor() { <Minstarapproxi8JonesPartialHardLimitDeg1Clip as Default>::default() } else { Minstarapproxi8JonesPartialHardLimitDeg1Clip::new() }; $body }
            "Aminstarf64" => { let mut $a = if crate::arith::use_default_ctor() { <Aminstarf64 as Default>::default() } else { Aminstarf64::new() }; $body }
            "Aminstarf32" => { let mut $a = if crate::arith::use_default_ctor() { <Aminstarf32 as Default>::default() } else { Aminstarf32::new() }; $body }
            "Aminstari8" => { let mut $a = if crate::arith::use_default_ctor() { <Aminstari8 as Default>::default() } else { Aminstari8::new() }; $body }
            "Aminstari8Jones" => { let mut $a = if crate::arith::use_default_ctor() { <Aminstari8Jones as Default>::default() } else { Aminstari8Jones::new() }; $body }
            "Aminstari8PartialHardLimit" => { let mut $a = if crate::arith::use_default_ctor() { <Aminstari8PartialHardLimit as Default>::default() } else { Aminstari8PartialHardLimit::new() }; $body }
            "Aminstari8JonesPartialHardLimit" => { let mut $a = if crate::arith::use_default_ctor() { <Aminstari8JonesPartialHardLimit as Default>::default() } else { Aminstari8JonesPartialHardLimit::new() }; $body }
            "Aminstari8Deg1Clip" => { let mut $a = if crate::arith::use_default_ctor() { <Aminstari8Deg1Clip as Default>::default() } else { Aminstari8Deg1Clip::new() }; $body }
            "Aminstari8JonesDeg1Clip" => { let mut $a = if crate::arith::use_default_ctor() { <Aminstari8JonesDeg1Clip as Default>::default() } else { Aminstari8JonesDeg1Clip::new() }; $body }
            "Aminstari8PartialHardLimitDeg1Clip" => { let mut $a = if crate::arith::use_default_ctor() { <Aminstari8PartialHardLimitDeg1Clip as Default>::default() } else { Aminstari8PartialHardLimitDeg1Clip::new() }; $body }
            "Aminstari8JonesPartialHardLimitDeg1Clip" => { let mut $a = if crate::arith::use_default_ctor() { <Aminstari8JonesPartialHardLimitDeg1Clip as Default>::default() } else { Aminstari8JonesPartialHardLimitDeg1Clip::new() }; $body }
            other => panic!("vh: unknown arithmetic {other}"),
        }
    };
}

pub fn is_i8(name: &str) -> bool { name.contains("i8") }

/// every other arithmetic object is built with `Default::default()` instead of `new()`: both are public constructors
pub fn use_default_ctor() -> bool {
    use std::sync::atomic::{AtomicUsize, Ordering};
    static N: AtomicUsize = AtomicUsize::new(0);
    N.fetch_add(1, Ordering::Relaxed) % 2 == 1
}
pub fn is_f32(name: &str) -> bool { name.ends_with("f32") }
pub fn kind(name: &str) -> &'static str {
    if name.starts_with("Phi") { "phi" } else if name.starts_with("Tanh") { "tanh" }
    else if name.starts_with("Minstarapprox") { "minstar" } else { "aminstar" }
}
pub fn has_phl(name: &str) -> bool { name.contains("PartialHardLimit") }

// ------------------------------------------------------------------------------------------------
// Oracle: exact box-plus in a stable form, and the real-valued min*-approx / A-Min* rules.
// boxplus(a,b) = sign(a)sign(b) * ( min(|a|,|b|) + ln(1+e^-(|a|+|b|)) - ln(1+e^-||a|-|b||) )
pub fn boxplus2(a: f64, b: f64) -> f64 {
    let (x, y) = (a.abs(), b.abs());
    let m = x.min(y) + (-(x + y)).exp().ln_1p() - (-(x - y).abs()).exp().ln_1p();
    let m = m.max(0.0);
    if (a < 0.0) ^ (b < 0.0) { -m } else { m }
}
pub fn boxplus(xs: &[f64]) -> f64 {
    let mut it = xs.iter();
    let mut acc = *it.next().expect("boxplus of nothing");
    for &x in it { acc = boxplus2(acc, x); }
    acc
}
pub fn others(xs: &[f64], i: usize) -> Vec<f64> {
    xs.iter().enumerate().filter(|(j, _)| *j != i).map(|(_, &x)| x).collect()
}
/// real-valued min*-approximation rule (fold in input order, clamp at 0), sign = product of signs
pub fn minstar_approx(xs: &[f64]) -> f64 {
    let neg = xs.iter().filter(|&&x| x < 0.0).count() % 2 == 1;
    let mut acc: Option<f64> = None;
    for &x in xs {
        let x = x.abs();
        acc = Some(match acc { None => x, Some(y) => (x.min(y) - (-(x - y).abs()).exp().ln_1p()).max(0.0) });
    }
    let m = acc.unwrap();
    if neg { -m } else { m }
}

pub fn cb(err: f64) -> i64 {
    // centibels of an absolute error: ceil(100*log10(err)); exact zero -> -99999; non-finite -> +99999
    let err = err.abs();
    if err == 0.0 { -99999 } else if !err.is_finite() { 99999 } else { (100.0 * err.log10()).ceil() as i64 }
}
pub fn micro(x: f64) -> i64 {
    // |x| in micro-units, capped (TLC integers are 32 bit)
    let m = (x.abs() * 1e6).round();
    if !(m < 2.0e9) { 2_000_000_000 } else { m as i64 }
}
pub fn sgn(x: f64) -> i64 { if x < 0.0 { -1 } else if x > 0.0 { 1 } else { 0 } }

fn pairs_json(v: &[(usize, f64)]) -> Vec<Value> { v.iter().map(|&(k, x)| json!([k, x as i64])).collect() }

// ------------------------------------------------------------------------------------------------
// 8-bit events (exact integers)
fn ev_check8<A: DecoderArithmetic>(out: &mut Out, name: &str, a: &mut A, ins: &[(usize, f64)]) where A::Llr: Num, A::VarMessage: Num, A::CheckMessage: Num, A::VarLlr: Num {
    out.new_case();
    let r = guarded(|| call_check(a, ins).out);
    let inj = pairs_json(ins);
    match r {
        Ok(o) => {
            // oracle: 8 x real-valued counterpart at inputs/8, in milli-units, one row per admissible argmin tie-break
            let xs: Vec<f64> = ins.iter().map(|p| p.1 / 8.0).collect();
            let refs = reference_8bit(kind(name), &xs);
            out.ev("Check8", "ok", json!({"arith": name, "kind": kind(name), "phl": has_phl(name), "in": inj, "out": pairs_json(&o), "refs": refs}));
        }
        Err(m) => out.ev("Check8", "panic", json!({"arith": name, "in": inj, "msg": m})),
    }
}

/// references (milli-units of the 8-bit scale) per output position, in INPUT order; several rows when the
/// least reliable input is not unique (A-Min* only)
fn reference_8bit(kind: &str, xs: &[f64]) -> Vec<Vec<i64>> {
    let to_m = |v: f64| (v * 8.0 * 1000.0).round() as i64;
    if kind == "minstar" {
        vec![(0..xs.len()).map(|i| to_m(minstar_approx(&others(xs, i)))).collect()]
    } else {
        let minmag = xs.iter().map(|x| x.abs()).fold(f64::INFINITY, f64::min);
        let cands: Vec<usize> = (0..xs.len()).filter(|&i| xs[i].abs() == minmag).collect();
        cands.iter().map(|&am| aminstar_ref(xs, am).iter().map(|&v| to_m(v)).collect()).collect()
    }
}

/// real-valued A-Min* with a given argmin: exact pairwise box-plus folds (Jones et al.)
pub fn aminstar_ref(xs: &[f64], argmin: usize) -> Vec<f64> {
    let neg_all = xs.iter().filter(|&&x| x < 0.0).count() % 2 == 1;
    let oth = others(xs, argmin);
    let delta = boxplus(&oth.iter().map(|x| x.abs()).collect::<Vec<_>>());
    let delta2 = boxplus2(delta, xs[argmin].abs());
    (0..xs.len()).map(|i| {
        let mag = if i == argmin { delta } else { delta2 };
        if neg_all ^ (xs[i] < 0.0) { -mag } else { mag }
    }).collect()
}

fn ev_var8<A: DecoderArithmetic>(out: &mut Out, name: &str, a: &mut A, llr: i64, ins: &[(usize, f64)]) where A::Llr: Num, A::VarMessage: Num, A::CheckMessage: Num, A::VarLlr: Num {
    out.new_case();
    let r = guarded(|| { let v = call_var(a, llr as f64, ins); (v.ret, v.out) });
    match r {
        Ok((ret, o)) => out.ev("Var8", "ok", json!({"arith": name, "jones": name.contains("Jones"), "deg1": name.contains("Deg1Clip"),
            "llr": llr, "in": pairs_json(ins), "ret": ret as i64, "out": pairs_json(&o)})),
        Err(m) => out.ev("Var8", "panic", json!({"arith": name, "llr": llr, "in": pairs_json(ins), "msg": m})),
    }
}

fn ev_layer8<A: DecoderArithmetic>(out: &mut Out, name: &str, a: &mut A, olds: &[(usize, f64)], vars: &[f64]) where A::Llr: Num, A::VarMessage: Num, A::CheckMessage: Num, A::VarLlr: Num {
    out.new_case();
    let r = guarded(|| {
        let l = call_layer(a, olds, vars);
        // the flooding rule of the SAME arithmetic on the extrinsic values (as variable-to-check messages)
        let ext: Vec<(usize, f64)> = olds.iter().map(|&(d, v)| (d, call_ext_to_msg(a, vars[d] - v))).collect();
        let f = call_check(a, &ext).out;
        (l.news, l.vars, ext, f)
    });
    let base = json!({"arith": name, "olds": pairs_json(olds), "vars": vars.iter().map(|&v| v as i64).collect::<Vec<_>>()});
    match r {
        Ok((news, vs, ext, f)) => {
            let mut e = base;
            e["news"] = json!(pairs_json(&news));
            e["vars_after"] = json!(vs.iter().map(|&v| v as i64).collect::<Vec<_>>());
            e["ext_msg"] = json!(pairs_json(&ext));
            e["flood"] = json!(pairs_json(&f));
            out.ev("Layer8", "ok", e)
        }
        Err(m) => { let mut e = base; e["msg"] = json!(m); out.ev("Layer8", "panic", e) }
    }
}

fn ev_quant8<A: DecoderArithmetic>(out: &mut Out, name: &str, a: &mut A, llr: f64) where A::Llr: Num, A::VarMessage: Num, A::CheckMessage: Num, A::VarLlr: Num {
    out.new_case();
    let r = guarded(|| call_quant(a, llr));
    // exact description of 8*llr for TLC: class, floor, and comparison of the fractional part with 1/2
    let (cls, fl, cmp) = if llr.is_nan() { ("nan", 0i64, "eq") } else if llr == f64::INFINITY { ("pinf", 0, "eq") }
        else if llr == f64::NEG_INFINITY { ("ninf", 0, "eq") } else {
            let x = 8.0 * llr; // exact (power of two), may overflow to inf only beyond 2^1021
            if !(x.abs() < 1.0e9) { ("fin", if x > 0.0 { 1_000_000_000 } else { -1_000_000_000 }, "lt") } else {
                let f = x.floor();
                let fr = x - f; // exact
                ("fin", f as i64, if fr < 0.5 { "lt" } else if fr > 0.5 { "gt" } else { "eq" })
            }
        };
    match r {
        Ok(g) => out.ev("Quant8", "ok", json!({"arith": name, "cls": cls, "fl": fl, "cmp": cmp, "got": g as i64, "dbg": format!("{llr:e}")})),
        Err(m) => out.ev("Quant8", "panic", json!({"arith": name, "cls": cls, "fl": fl, "cmp": cmp, "msg": m, "dbg": format!("{llr:e}")})),
    }
}

// ------------------------------------------------------------------------------------------------
// floating-point events
fn ev_checkf<A: DecoderArithmetic>(out: &mut Out, name: &str, a: &mut A, ins: &[(usize, f64)], inrange: bool) where A::Llr: Num, A::VarMessage: Num, A::CheckMessage: Num, A::VarLlr: Num {
    out.new_case();
    // the message values the arithmetic actually sees (f32 rounding of the inputs is part of the input)
    let seen: Vec<(usize, f64)> = ins.iter().map(|&(s, v)| (s, if is_f32(name) { v as f32 as f64 } else { v })).collect();
    let r = guarded(|| call_check(a, &seen).out);
    let inj: Vec<Value> = seen.iter().map(|&(s, v)| json!([s, sgn(v), micro(v)])).collect();
    match r {
        Err(m) => out.ev("CheckF", "panic", json!({"arith": name, "in": inj, "msg": m})),
        Ok(o) => {
            let xs: Vec<f64> = seen.iter().map(|p| p.1).collect();
            let k = kind(name);
            let minmag = xs.iter().map(|x| x.abs()).fold(f64::INFINITY, f64::min);
            let tied = xs.iter().filter(|x| x.abs() == minmag).count() > 1;
            let mut outs = vec![];
            for &(dst, val) in &o {
                // position of dst among the sources (first match); exact reference for "all others"
                let pos = seen.iter().position(|p| p.0 == dst);
                let (exact_others, exact_all) = match pos {
                    Some(i) => (boxplus(&others(&xs, i)), {
                        // box-plus of ALL inputs with the sign adjusted for the destination (A-Min* to non-argmin)
                        let all = boxplus(&xs);
                        if xs[i] < 0.0 { -all } else { all }
                    }),
                    None => (f64::NAN, f64::NAN),
                };
                let is_argmin = pos.map(|i| xs[i].abs() == minmag).unwrap_or(false);
                let min_others = pos.map(|i| others(&xs, i).iter().map(|x| x.abs()).fold(f64::INFINITY, f64::min)).unwrap_or(f64::NAN);
                outs.push(json!({"dst": dst, "s": sgn(val), "m": micro(val), "fin": val.is_finite(),
                    "ref_m": micro(exact_others), "ref_s": sgn(exact_others), "refc": exact_others.abs().ceil().min(1e6) as i64,
                    "err_cb": cb(val - exact_others),
                    "all_m": micro(exact_all), "all_c": exact_all.abs().ceil().min(1e6) as i64, "err_all_cb": cb(val - exact_all),
                    "exc_cb": cb((val.abs() - min_others).max(0.0)), "minc": min_others.ceil().min(1e6) as i64,
                    "argmin": is_argmin}));
            }
            out.ev("CheckF", "ok", json!({"arith": name, "kind": k, "f32": is_f32(name), "inrange": inrange, "tied": tied, "d": ins.len(), "in": inj, "out": outs}));
        }
    }
}

fn ev_varf<A: DecoderArithmetic>(out: &mut Out, name: &str, a: &mut A, llr: f64, ins: &[(usize, f64)]) where A::Llr: Num, A::VarMessage: Num, A::CheckMessage: Num, A::VarLlr: Num {
    out.new_case();
    let f32t = is_f32(name);
    let rd = |v: f64| if f32t { v as f32 as f64 } else { v };
    let seen: Vec<(usize, f64)> = ins.iter().map(|&(s, v)| (s, rd(v))).collect();
    let llr = rd(llr);
    let r = guarded(|| { let v = call_var(a, llr, &seen); (v.ret, v.out) });
    let inj: Vec<Value> = seen.iter().map(|&(s, v)| json!([s, sgn(v), micro(v)])).collect();
    match r {
        Err(m) => out.ev("VarF", "panic", json!({"arith": name, "in": inj, "msg": m})),
        Ok((ret, o)) => {
            let total: f64 = llr + seen.iter().map(|p| p.1).sum::<f64>(); // f64 reference
            let scale = llr.abs() + seen.iter().map(|p| p.1.abs()).sum::<f64>();
            let outs: Vec<Value> = o.iter().map(|&(dst, val)| {
                let mine = seen.iter().find(|p| p.0 == dst).map(|p| p.1).unwrap_or(f64::NAN);
                json!({"dst": dst, "err_cb": cb(val - (total - mine))})
            }).collect();
            out.ev("VarF", "ok", json!({"arith": name, "f32": f32t, "d": ins.len(), "in": inj, "ret_err_cb": cb(ret - total),
                "scale_cb": cb(scale.max(1e-300)), "out": outs}));
        }
    }
}

fn ev_layerf<A: DecoderArithmetic>(out: &mut Out, name: &str, a: &mut A, olds: &[(usize, f64)], vars: &[f64]) where A::Llr: Num, A::VarMessage: Num, A::CheckMessage: Num, A::VarLlr: Num {
    out.new_case();
    let f32t = is_f32(name);
    let rd = |v: f64| if f32t { v as f32 as f64 } else { v };
    let olds: Vec<(usize, f64)> = olds.iter().map(|&(d, v)| (d, rd(v))).collect();
    let vars: Vec<f64> = vars.iter().map(|&v| rd(v)).collect();
    let r = guarded(|| {
        let l = call_layer(a, &olds, &vars);
        let ext: Vec<(usize, f64)> = olds.iter().map(|&(d, v)| (d, call_ext_to_msg(a, rd(vars[d] - v)))).collect();
        let f = call_check(a, &ext).out;
        (l.news, l.vars, ext, f)
    });
    match r {
        Err(m) => out.ev("LayerF", "panic", json!({"arith": name, "msg": m})),
        Ok((news, vs, ext, f)) => {
            // distance between the layered result and flooding-on-extrinsics, relative scale = largest magnitude involved
            let scale = ext.iter().map(|p| p.1.abs()).fold(1e-300, f64::max);
            let rows: Vec<Value> = news.iter().map(|&(d, nv)| {
                let fv = f.iter().find(|p| p.0 == d).map(|p| p.1).unwrap_or(f64::NAN);
                let e = ext.iter().find(|p| p.0 == d).map(|p| p.1).unwrap_or(f64::NAN);
                json!({"dst": d, "new_err_cb": cb(nv - fv), "var_err_cb": cb(vs[d] - (e + nv)), "mag_c": fv.abs().ceil().min(1e6) as i64})
            }).collect();
            let untouched_ok = (0..vars.len()).filter(|d| !olds.iter().any(|p| p.0 == *d)).all(|d| vs[d] == vars[d]);
            out.ev("LayerF", "ok", json!({"arith": name, "f32": f32t, "d": olds.len(), "scale_cb": cb(scale), "rows": rows,
                "dests_same": news.iter().map(|p| p.0).collect::<Vec<_>>() == olds.iter().map(|p| p.0).collect::<Vec<_>>(),
                "untouched_ok": untouched_ok}));
        }
    }
}

// ------------------------------------------------------------------------------------------------
fn ids(rng: &mut Rng, d: usize) -> Vec<usize> {
    // shuffled, non-contiguous source ids
    let mut v: Vec<usize> = (0..d).map(|k| 3 * k + 1 + (k % 2) * 40).collect();
    rng.shuffle(&mut v);
    v
}

fn i8_vector(rng: &mut Rng, d: usize, class: usize) -> Vec<f64> {
    let special = [-127i64, -126, -101, -100, -99, -64, -17, -8, -2, -1, 0, 1, 2, 8, 17, 64, 99, 100, 101, 126, 127];
    (0..d).map(|k| match class % 8 {
        0 => rng.range(-127, 127),
        1 => *rng.pick(&special),
        2 => { let v = rng.range(0, 127); if k % 2 == 0 { v } else { -v } }
        3 => *rng.pick(&[127i64, -127]),
        4 => if k == 0 { 0 } else { rng.range(-127, 127) },
        5 => { let base = rng.range(-127, 127); if k < 2 { base } else { rng.range(-127, 127) } } // tie in magnitude
        6 => rng.range(95, 110) * if rng.coin(1, 2) { 1 } else { -1 },
        _ => rng.range(-20, 20),
    } as f64).collect()
}

pub fn generate_c04(a: &Args) {
    let mut out = Out::create(&a.out);
    let mut rng = Rng::new(a.seed ^ 0xC04);
    let th = is_thorough(a);
    for name in ARITHS.iter() {
        // ONE long-lived arithmetic object per type, as inside a decoder: scratch buffers persist between calls
        with_arith!(*name, ar => c04_type(&mut out, &mut rng, name, &mut ar, th));
    }
    out.finish();
}

fn c04_type<A: DecoderArithmetic>(out: &mut Out, rng: &mut Rng, name: &str, ar: &mut A, th: bool)
where A::Llr: Num, A::VarMessage: Num, A::CheckMessage: Num, A::VarLlr: Num {
    {
        if is_i8(name) {
            // degree 2: lattice / exhaustive
            let step = if th { 1 } else { 9 };
            let mut x = -127i64;
            while x <= 127 {
                let mut y = -127i64;
                while y <= 127 {
                    ev_check8(out, name, ar, &[(5, x as f64), (2, y as f64)]);
                    y += step;
                }
                x += step;
            }
            // degree 3 on a lattice of 17 values per input (thorough) / 7 (quick)
            let lat: Vec<i64> = if th { (0..17).map(|k| -127 + k * 254 / 16).collect() } else { vec![-127, -100, -33, 0, 5, 99, 127] };
            for &p in &lat { for &q in &lat { for &r in &lat {
                ev_check8(out, name, ar, &[(0, p as f64), (9, q as f64), (4, r as f64)]);
            } } }
            let n = if th { 6000 } else { 300 };
            for i in 0..n {
                let d = if i % 3 == 0 { 3 } else { 4 + rng.below(27) };
                let v = i8_vector(rng, d, i);
                let id = ids(rng, d);
                let ins: Vec<(usize, f64)> = id.into_iter().zip(v).collect();
                ev_check8(out, name, ar, &ins);
            }
        } else {
            let range = if kind(name) == "phi" || kind(name) == "tanh" { if is_f32(name) { 12.0 } else { 30.0 } } else { 100.0 };
            let n = if th { 12000 } else { 700 };
            for i in 0..n {
                let d = if i % 4 == 0 { 2 } else if i % 4 == 1 { 3 } else { 4 + rng.below(27) };
                let scale = match i % 5 { 0 => 1.0, 1 => 3.0, 2 => range / 4.0, 3 => range / 2.0, _ => 0.3 };
                let mut v: Vec<f64> = (0..d).map(|_| (rng.gauss() * scale).clamp(-range, range)).collect();
                match i % 11 {
                    3 => { let x = v[0]; for y in v.iter_mut() { *y = x; } }              // all equal
                    5 => v[0] = 0.0,                                                      // one zero
                    7 => for (k, y) in v.iter_mut().enumerate() { *y = y.abs() * if k % 2 == 0 { 1.0 } else { -1.0 }; },
                    9 => { let m = v[0].abs(); if d > 1 { v[1] = -m; } }                   // tie in magnitude
                    _ => {}
                }
                let id = ids(rng, d);
                let ins: Vec<(usize, f64)> = id.into_iter().zip(v).collect();
                ev_checkf(out, name, ar, &ins, true);
            }
            // out-of-range probes: only the discrete clauses apply
            for probe in [vec![1e30, 1e30, -1e30], vec![0.0, 0.0], vec![-0.0, 5.0, 3.0], vec![5e-324, -5e-324, 1.0],
                          vec![60.0, -70.0, 80.0, 90.0], vec![1e-40, 2.0], vec![40.0, 40.0, 40.0]] {
                let id = ids(rng, probe.len());
                let ins: Vec<(usize, f64)> = id.into_iter().zip(probe).collect();
                ev_checkf(out, name, ar, &ins, false);
            }
        }
    }
}

pub fn generate_c05(a: &Args) {
    let mut out = Out::create(&a.out);
    let mut rng = Rng::new(a.seed ^ 0xC05);
    let th = is_thorough(a);
    for name in ARITHS.iter() {
        with_arith!(*name, ar => c05_type(&mut out, &mut rng, name, &mut ar, th));
    }
    // ONE quantiser for the sixteen 8-bit variants ("the 8-bit variants quantise channel LLRs as round(8*llr)"), symmetric about zero:
    // at exact ties the statement fixes no direction (both neighbours are accepted above), but every variant must take the same one
    let names8: Vec<&str> = ARITHS.iter().copied().filter(|n| is_i8(n)).collect();
    let mut xs: Vec<f64> = vec![0.0625, 0.1875, 0.3125, 15.8125, 15.9375, 15.6875, 1.0 / 16.0 + 1e-17, 7.5, 0.03, 1e-30, 1e30];
    let mut j = -131i64;
    while j <= 131 { xs.push((j as f64 + 0.5) / 8.0); j += if th { 1 } else { 3 }; }
    for _ in 0..(if th { 3000 } else { 200 }) { xs.push(rng.gauss() * 6.0); }
    for x in xs {
        out.new_case();
        let q = |v: f64| -> Vec<i64> { names8.iter().map(|name| with_arith!(*name, ar => guarded(|| call_quant(&mut ar, v)).map(|g| g as i64).unwrap_or(-999))).collect() };
        out.ev("QuantFam", "ok", json!({"names": names8, "got": q(x), "neg": q(-x), "dbg": format!("{x:e}")}));
    }
}

fn c05_type<A: DecoderArithmetic>(out: &mut Out, rng: &mut Rng, name: &str, ar: &mut A, th: bool)
where A::Llr: Num, A::VarMessage: Num, A::CheckMessage: Num, A::VarLlr: Num {
    {
        if is_i8(name) {
            // quantiser: specials, every (j +- 1/2)/8 boundary and its neighbours, random
            for x in [f64::NAN, f64::INFINITY, f64::NEG_INFINITY, 1e300, -1e300, 1e30, -1e30, 0.0, -0.0, 5e-324, -5e-324, 15.875, -15.875, 15.9375, -15.9375, 16.0, -16.0,
                      -15.9921875, 15.9921875, 15.81, -15.81, 1e9, -1e9, 2.0e8, -2.0e8] {
                ev_quant8(out, name, ar, x);
            }
            let jstep = if th { 1 } else { 5 };
            let mut j = -140i64;
            while j <= 140 {
                let b = (j as f64 + 0.5) / 8.0;
                for x in [b, f64::from_bits(b.to_bits() + 1), f64::from_bits(b.to_bits() - 1), j as f64 / 8.0, j as f64 / 8.0 + 0.03] {
                    ev_quant8(out, name, ar, x);
                }
                j += jstep;
            }
            for _ in 0..(if th { 2000 } else { 60 }) { ev_quant8(out, name, ar, rng.gauss() * 10.0); }
            // variable rule
            let n = if th { 5000 } else { 260 };
            for i in 0..n {
                let d = match i % 6 { 0 => 1, 1 => 2, 2 => 200, 3 => 1, _ => 1 + rng.below(40) };
                let mut v = i8_vector(rng, d, i / 2);
                if i % 12 == 2 { v.iter_mut().for_each(|x| *x = 127.0); }
                if i % 12 == 8 { v.iter_mut().for_each(|x| *x = -127.0); }
                let llr = match i % 5 { 0 => *rng.pick(&[115i64, 116, 117, -115, -116, -117, 127, -127]), 1 => rng.range(-127, 127), 2 => 127, 3 => -127, _ => rng.range(-30, 30) };
                let id = ids(rng, d);
                let ins: Vec<(usize, f64)> = id.into_iter().zip(v).collect();
                ev_var8(out, name, ar, llr, &ins);
            }
            // layered rule from reachable states |var| <= 127*(deg+1)
            let n = if th { 5000 } else { 260 };
            for i in 0..n {
                let d = if i % 3 == 0 { 2 } else { 2 + rng.below(12) };
                let nv = d + rng.below(4);
                let mut dests: Vec<usize> = (0..nv).collect();
                rng.shuffle(&mut dests);
                dests.truncate(d);
                let olds: Vec<(usize, f64)> = dests.iter().map(|&t| (t, if i % 7 == 0 { 0.0 } else { i8_vector(rng, 1, i)[0] })).collect();
                let vars: Vec<f64> = (0..nv).map(|_| {
                    let deg = 1 + rng.below(6) as i64;
                    match i % 4 { 0 => rng.range(-127 * (deg + 1), 127 * (deg + 1)), 1 => rng.range(-140, 140), 2 => rng.range(-127, 127), _ => *rng.pick(&[100i64, 110, 120, 227, -227, 254, -254, 99, -100]) }
                } as f64).collect();
                ev_layer8(out, name, ar, &olds, &vars);
            }
        } else {
            let n = if th { 4000 } else { 220 };
            for i in 0..n {
                let d = match i % 5 { 0 => 1, 1 => 2, 2 => 200, _ => 1 + rng.below(30) };
                let scale = [0.5, 3.0, 20.0, 1e6][i % 4];
                let v: Vec<f64> = (0..d).map(|_| rng.gauss() * scale).collect();
                let id = ids(rng, d);
                let ins: Vec<(usize, f64)> = id.into_iter().zip(v).collect();
                ev_varf(out, name, ar, rng.gauss() * scale, &ins);
            }
            let range = if kind(name) == "phi" || kind(name) == "tanh" { if is_f32(name) { 8.0 } else { 20.0 } } else { 60.0 };
            for i in 0..n {
                let d = if i % 3 == 0 { 2 } else { 2 + rng.below(10) };
                let nv = d + rng.below(4);
                let mut dests: Vec<usize> = (0..nv).collect();
                rng.shuffle(&mut dests);
                dests.truncate(d);
                let s = [1.0, range / 4.0, range / 2.0][i % 3];
                let (olds, vars): (Vec<(usize, f64)>, Vec<f64>) = if i % 7 == 3 {
                    // exact TIES among the extrinsic magnitudes (hard-decision-like inputs): half-integers, exactly representable, so
                    // |var - old| repeats; the layered rule must still equal the flooding rule on the extrinsics edge by edge
                    let lv = [0.5, 1.0, 1.5, 2.0, 3.0];
                    let vars: Vec<f64> = (0..nv).map(|_| *rng.pick(&lv) * if rng.coin(1, 2) { -1.0 } else { 1.0 } + *rng.pick(&[0.0, 0.5, 1.0])).collect();
                    let olds: Vec<(usize, f64)> = dests.iter().map(|&t| (t, *rng.pick(&[0.0, 0.5, 1.0]))).collect();
                    (olds, vars)
                } else if i % 11 == 5 {
                    // SATURATION: every extrinsic magnitude beyond the point where the float rules saturate (tanh product exactly +-1,
                    // phi(x) = 0): the layered update must still give what the flooding rule gives on the extrinsics - finite values
                    let big = [40.0, 64.0, 100.0, 750.0, 1e4];
                    let vars: Vec<f64> = (0..nv).map(|_| *rng.pick(&big) * if rng.coin(1, 2) { -1.0 } else { 1.0 }).collect();
                    let olds: Vec<(usize, f64)> = dests.iter().map(|&t| (t, if rng.coin(1, 2) { 0.0 } else { rng.gauss() })).collect();
                    (olds, vars)
                } else {
                    (dests.iter().map(|&t| (t, if i % 5 == 0 { 0.0 } else { (rng.gauss() * s * 0.5).clamp(-range / 2.0, range / 2.0) })).collect(),
                     (0..nv).map(|_| (rng.gauss() * s).clamp(-range / 2.0, range / 2.0)).collect())
                };
                ev_layerf(out, name, ar, &olds, &vars);
            }
        }
    }
}
