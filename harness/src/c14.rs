//! C14: modulators / demodulators. The reference posterior uses the constellation table of spec/Psk.tla
//! (re-typed here and sent to TLC in a Table event so that TLC checks the two agree).
use crate::arith::{cb, sgn};
use crate::util::*;
use ldpc_toolbox::gf2::GF2;
use ldpc_toolbox::simulation::modulation::*;
use ndarray::{Array1, s};
use num_complex::Complex;
use num_traits::{One, Zero};
use serde_json::json;

/// Psk.tla Label: index k (angle k*pi/4) -> bits b0 b1 b2
const LABEL: [[u8; 3]; 8] = [[0, 0, 1], [0, 0, 0], [1, 0, 0], [1, 1, 0], [0, 1, 0], [0, 1, 1], [1, 1, 1], [1, 0, 1]];

fn gf(b: u8) -> GF2 { if b == 1 { GF2::one() } else { GF2::zero() } }
fn point(k: usize) -> Complex<f64> {
    let t = k as f64 * std::f64::consts::FRAC_PI_4;
    Complex::new(t.cos(), t.sin())
}
fn lse(xs: &[f64]) -> f64 {
    let m = xs.iter().cloned().fold(f64::NEG_INFINITY, f64::max);
    m + xs.iter().map(|x| (x - m).exp()).sum::<f64>().ln()
}
/// posterior LLRs of the three bits for received r, per-dimension noise sigma, equiprobable unit-energy points
pub fn posterior8(r: Complex<f64>, sigma: f64) -> ([f64; 3], f64) {
    let d: Vec<f64> = (0..8).map(|k| { let p = point(k); (r.re * p.re + r.im * p.im) / (sigma * sigma) }).collect();
    let scale = d.iter().map(|x| x.abs()).fold(0.0, f64::max);
    let mut out = [0.0; 3];
    for b in 0..3 {
        let z: Vec<f64> = (0..8).filter(|&k| LABEL[k][b] == 0).map(|k| d[k]).collect();
        let o: Vec<f64> = (0..8).filter(|&k| LABEL[k][b] == 1).map(|k| d[k]).collect();
        out[b] = lse(&z) - lse(&o);
    }
    (out, scale)
}

fn llr_json(got: f64, reference: f64) -> serde_json::Value {
    json!({"err_cb": cb(got - reference), "ref_s": sgn(reference), "got_s": sgn(got), "ref_cb": cb(reference), "fin": got.is_finite()})
}

fn dem8(out: &mut Out, r: Complex<f64>, sigma: f64, kind: &str) {
    out.new_case();
    // both public constructors must give the exact posterior: the inherent `new` and the trait's `from_noise_sigma` (the one the BER engine uses)
    let via_new = (r.re.to_bits() ^ r.im.to_bits() ^ sigma.to_bits()).count_ones() % 2 == 0;
    let res = guarded(|| if via_new { Psk8Demodulator::new(sigma).demodulate(&[r]) } else { Psk8Demodulator::from_noise_sigma(sigma).demodulate(&[r]) });
    match res {
        Ok(g) if g.len() == 3 => {
            let (reference, scale) = posterior8(r, sigma);
            out.ev("Dem8", "ok", json!({"kind": kind, "ctor": if via_new { "new" } else { "from_noise_sigma" }, "scale_cb": cb(scale.max(1e-300)), "llr": (0..3).map(|b| llr_json(g[b], reference[b])).collect::<Vec<_>>(),
                "dbg": format!("r=({:e},{:e}) sigma={:e}", r.re, r.im, sigma)}));
        }
        Ok(g) => out.ev("Dem8", "badlen", json!({"len": g.len()})),
        Err(m) => out.ev("Dem8", "panic", json!({"msg": m})),
    }
}

fn demb(out: &mut Out, r: f64, sigma: f64) {
    out.new_case();
    let via_new = (r.to_bits() ^ sigma.to_bits()).count_ones() % 2 == 0;
    match guarded(|| if via_new { BpskDemodulator::new(sigma).demodulate(&[r]) } else { BpskDemodulator::from_noise_sigma(sigma).demodulate(&[r]) }) {
        Ok(g) if g.len() == 1 => {
            // points -1 (bit 0) and +1 (bit 1): LLR = ln(e^{-r/s2}/e^{r/s2}) = -2r/sigma^2
            let reference = -2.0 * r / (sigma * sigma);
            let scale = (r / (sigma * sigma)).abs();
            let mut e = llr_json(g[0], reference);
            e["scale_cb"] = json!(cb(scale.max(1e-300)));
            out.ev("DemB", "ok", e);
        }
        Ok(g) => out.ev("DemB", "badlen", json!({"len": g.len()})),
        Err(m) => out.ev("DemB", "panic", json!({"msg": m})),
    }
}

/// the same logical bit sequence presented through different memory layouts
fn layouts(bits: &[u8]) -> Vec<(&'static str, Array1<GF2>, Box<dyn Fn(&Array1<GF2>) -> ndarray::ArrayView1<'_, GF2>>)> {
    let n = bits.len();
    let std_a = Array1::from_iter(bits.iter().map(|&b| gf(b)));
    let rev = Array1::from_iter(bits.iter().rev().map(|&b| gf(b)));
    let mut wide = Array1::from_elem(2 * n, GF2::one());
    for (k, &b) in bits.iter().enumerate() { wide[2 * k] = gf(b); }
    let mut wrev = Array1::from_elem(2 * n, GF2::zero());
    for (k, &b) in bits.iter().enumerate() { wrev[2 * (n - 1 - k) + 1] = gf(b); }
    vec![
        ("standard", std_a, Box::new(|a: &Array1<GF2>| a.view())),
        ("reversed", rev, Box::new(|a: &Array1<GF2>| a.slice(s![..;-1]))),
        ("stride2", wide, Box::new(|a: &Array1<GF2>| a.slice(s![..;2]))),
        ("stride-2", wrev, Box::new(|a: &Array1<GF2>| a.slice(s![..;-2]))),
    ]
}

fn round(out: &mut Out, modu: &str, bits: &[u8], sigma: f64) {
    for (layout, storage, view) in layouts(bits) {
        out.new_case();
        let res = guarded(|| {
            let v = view(&storage);
            let llrs = if modu == "8psk" {
                let sym = Psk8Modulator::new().modulate(&v);
                Psk8Demodulator::from_noise_sigma(sigma).demodulate(&sym)
            } else {
                let sym = BpskModulator::new().modulate(&v);
                BpskDemodulator::from_noise_sigma(sigma).demodulate(&sym)
            };
            llrs.iter().map(|&x| if x > 0.0 { 0u8 } else { 1u8 }).collect::<Vec<u8>>()
        });
        match res {
            Ok(g) => out.ev("Round", "ok", json!({"mod": modu, "layout": layout, "bits": bits, "got": g, "sigma_dbg": format!("{sigma:e}")})),
            Err(m) => out.ev("Round", "panic", json!({"mod": modu, "layout": layout, "bits": bits, "msg": m})),
        }
    }
}

pub fn generate(a: &Args) {
    let mut out = Out::create(&a.out);
    let mut rng = Rng::new(a.seed ^ 0xC14);
    let th = is_thorough(a);
    out.new_case();
    out.ev("Table", "ok", json!({"labels": LABEL.iter().map(|l| l.to_vec()).collect::<Vec<_>>()}));
    // modulators: every triple / bit, through every layout
    for x in 0..8u8 {
        let bits = [x >> 2 & 1, x >> 1 & 1, x & 1];
        for (layout, storage, view) in layouts(&bits) {
            out.new_case();
            match guarded(|| Psk8Modulator::new().modulate(&view(&storage))) {
                Ok(sym) if sym.len() == 1 => {
                    let ang = sym[0].im.atan2(sym[0].re);
                    let oct = ((ang / std::f64::consts::FRAC_PI_4).round() as i64).rem_euclid(8);
                    let ideal = point(oct as usize);
                    out.ev("Mod8", "ok", json!({"bits": bits, "oct": oct, "dist_cb": cb((sym[0] - ideal).norm()), "layout": layout}));
                }
                Ok(sym) => out.ev("Mod8", "badlen", json!({"len": sym.len()})),
                Err(m) => out.ev("Mod8", "panic", json!({"msg": m})),
            }
        }
    }
    for b in 0..2u8 {
        out.new_case();
        match guarded(|| BpskModulator::new().modulate(&Array1::from_elem(1, gf(b)))) {
            Ok(s) if s.len() == 1 => out.ev("ModB", "ok", json!({"bit": b, "pt": if s[0] > 0.0 { 1 } else { -1 }, "dist_cb": cb(s[0].abs() - 1.0)})),
            Ok(s) => out.ev("ModB", "badlen", json!({"len": s.len()})),
            Err(m) => out.ev("ModB", "panic", json!({"msg": m})),
        }
    }
    // demodulators: polar grid, at / between points, decision boundaries, far away, sigma from 1e-2 to 1e2
    // "every positive noise level within floating range": also far below / above anything a simulation uses (the LLRs stay finite:
    // |LLR| <~ 4 * 1000 / sigma^2 <= 4e27 for sigma = 1e-12)
    let sigmas = [1e-12, 1e-9, 1e-6, 0.01, 0.05, 0.3, 1.0, 3.0, 100.0, 1e5, 1e9];
    let radii = [0.0, 1e-6, 0.5, 1.0, 2.0, 4.0, 50.0, 1000.0];
    let nang = if th { 128 } else { 16 };
    for &sg in &sigmas {
        for &rad in &radii {
            for k in 0..nang {
                let t = 2.0 * std::f64::consts::PI * k as f64 / nang as f64;
                dem8(&mut out, Complex::new(rad * t.cos(), rad * t.sin()), sg, "grid");
            }
        }
        // "any position": also samples many orders of magnitude away from the constellation points (after a gain error) or from anything
        for &x in &[-1e17, -1e12, -1e7, -1000.0, -50.0, -4.0, -1.0, -1e-9, -1e-12, -1e-17, 0.0, 1e-17, 1e-12, 1e-9, 0.3, 1.0, 4.0, 50.0, 1000.0, 1e7, 1e12, 1e17] { demb(&mut out, x, sg); }
    }
    for _ in 0..(if th { 60000 } else { 500 }) {
        let sg = if rng.coin(1, 5) { 10f64.powf(rng.unit() * 24.0 - 12.0) } else { 10f64.powf(rng.unit() * 4.0 - 2.0) };
        let r = Complex::new(rng.gauss() * 1.5, rng.gauss() * 1.5);
        dem8(&mut out, r, sg, "random");
        demb(&mut out, rng.gauss() * 2.0, sg);
    }
    // noiseless round trip: every bit sequence of length <= 9 (12 thorough) for 8PSK (multiples of 3) and BPSK (<= 6), random long ones
    let max3 = if th { 5 } else { 3 };
    for t in 1..=max3 {
        let n = 3 * t;
        for x in 0u32..(1u32 << n) {
            let bits: Vec<u8> = (0..n).map(|k| ((x >> k) & 1) as u8).collect();
            round(&mut out, "8psk", &bits, if x % 3 == 0 { 0.05 } else { 1.0 });
        }
    }
    for n in 1..=6 { for x in 0u32..(1u32 << n) {
        let bits: Vec<u8> = (0..n).map(|k| ((x >> k) & 1) as u8).collect();
        round(&mut out, "bpsk", &bits, 1.0);
    } }
    for i in 0..(if th { 200 } else { 20 }) {
        let n = 3 * (10 + rng.below(300));
        let bits: Vec<u8> = (0..n).map(|_| (rng.next() & 1) as u8).collect();
        round(&mut out, if i % 2 == 0 { "8psk" } else { "bpsk" }, &bits, [0.02, 0.3, 1.0, 30.0][i % 4]);
    }
    out.finish();
}
