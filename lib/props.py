"""Per-property pipelines: which specifications TLC checks at design level, which behaviours it hands to
the harness (spec -> impl), which traces the harness records (impl -> spec), and the trace specification
that judges them.  `k` is the driver module (./check), `ctx` a k.Ctx."""
import glob, json, os, subprocess


def setup(k):
    k.build_vh()
    k.build_cli()
    bad = 0
    for tla in sorted(glob.glob(os.path.join(k.SPEC, "*.tla"))):
        rc, out, _ = k.run(["tla-sany", os.path.basename(tla)], 120, cwd=k.SPEC)
        if rc != 0 or "error" in out.lower().replace("semantic errors:\n\n", ""):
            if "Parsing or semantic analysis failed" in out or rc != 0:
                print(out[-1500:])
                bad += 1
    print(f"setup: harness built, {len(glob.glob(os.path.join(k.SPEC, '*.tla')))} modules parsed, {bad} failed")
    return 2 if bad else 0


# ------------------------------------------------------------------------------------------------
def c17(k, ctx):
    ctx.rule = ("one case = one operation history on one SparseMatrix (spec->impl: TLC-simulated behaviours of "
                "Sparse.tla on 3x3; impl->spec: seeded random histories on 8 shapes up to 6x8, biased to "
                "re-insert present / remove absent entries); non-trivial = distinct (shape, op, args, resulting set) "
                "steps that changed the matrix or were a no-op on purpose")
    # design level: the two-list implementation refines the set of positions
    ctx.tlc_mc("MC_Sparse", "MC_Sparse.cfg" if not ctx.thorough else "MC_Sparse_thorough.cfg")
    if ctx.thorough:
        # extra evidence only: Apalache inductive invariant (TypeOK /\ NoDup /\ Mirror /\ Refines) with symbolic dimensions and
        # histories of unbounded length, plus a flawed twin that must be refuted (never changes the exit status)
        ctx.extra["apalache"] = k.apalache_inductive(ctx, "SparseInd.tla", "SparseIndNeg.tla")
    # spec -> impl
    cases, n = ctx.tlc_cases("MC_SparseSim", "MC_SparseSim.cfg",
                             simulate=(6000 if ctx.thorough else 300, 33))
    ctx.vh("replay", "s2i", ["--in", cases])
    # impl -> spec
    ctx.vh("gen", "i2s")
    recs, rej = ctx.validate("Trace_C17")
    ctx.require_events("New", "Op")
    for r in recs:
        if r["e"] == "Op" and r["o"] == "ok":
            ctx.nontrivial_keys.add(k.key(r["obs"]["nr"], r["obs"]["nc"], r["op"], r["r"], r["c"], r["idx"], r["obs"]["cells"]))
    ctx.samples = [k.sample_case(recs, 1, 3), k.sample_case(recs, recs[-1]["i"], 3)]
    ctx.assumptions = ["TLC 1.8 + CommunityModules Json/IOUtils", "harness projection (contains / weights / iterators dumped verbatim)",
                       "indices passed to the matrix are in range (out-of-range panics are documented behaviour)"]


def c02(k, ctx):
    ctx.rule = ("one case = one parity-check matrix with its from_h verdict and (message, codeword) pairs; exhaustive over all "
                "binary r x n matrices up to 3x4 (quick) / 3x5 (thorough) plus seeded random matrices up to 12x30 in the classes "
                "staircase / near-staircase / dense / singular tail / square; non-trivial = distinct matrices whose tail is not the identity pattern "
                "(counted as distinct (rows, n) with at least one off-diagonal one in the parity part)")
    ctx.tlc_mc("MC_Encoder", "MC_Encoder_thorough.cfg" if ctx.thorough else "MC_Encoder.cfg")
    ctx.vh("gen", "i2s")
    recs, rej = ctx.validate("Trace_C02")
    ctx.require_events("Enc", "Gf2", "Gf2Sum")
    for r in recs:
        if r["o"] == "ok" and r["e"] == "Enc":
            kk = r["n"] - r["r"]
            if any((c >= kk and c - kk != j) for j, row in enumerate(r["rows"]) for c in row):
                ctx.nontrivial_keys.add(k.key(r["rows"], r["n"]))
    ctx.extra["accepted"] = sum(1 for r in recs if r.get("acc"))
    ctx.extra["refused"] = sum(1 for r in recs if r.get("acc") is False)
    ctx.extra["certificate_checked"] = sum(1 for r in recs if r.get("cert", {}).get("kind") in ("inv", "ker"))
    ctx.exhaustive = True
    ctx.samples = [k.sample_case(recs, 400), k.sample_case(recs, recs[-1]["i"])]
    ctx.assumptions = ["TLC 1.8 + Json/IOUtils", "for r > 7 the (non-)invertibility witness comes from the harness oracle and is VERIFIED by TLC (T*W = I or T*x = 0)",
                       "exhaustive part enumerated by the harness (same finite set TLC enumerates in MC_Encoder)"]


def c09(k, ctx):
    ctx.rule = ("one case = one matrix through parity_to_systematic (+ Encoder::from_h on the result); exhaustive over all r x n up to 3x4 "
                "(quick) / 3x5, 2x6, 4x4 (thorough) plus seeded random up to 12x30: full rank, deficient by construction, square, zero/duplicate "
                "columns, pivots at the far right; non-trivial = distinct matrices that are not already in systematic form (tail not invertible "
                "as given, or rank deficient), counted as distinct (rows, n) whose verdict is notfullrank or whose result differs from the input")
    ctx.tlc_mc("MC_Systematic", "MC_Systematic_thorough.cfg" if ctx.thorough else "MC_Systematic.cfg")
    ctx.tlc_mc("MC_Systematic", "MC_Systematic_neg.cfg", expect_violation=True)   # the as-found assertion placement (D5)
    ctx.vh("gen", "i2s")
    recs, rej = ctx.validate("Trace_C09")
    ctx.require_events("Sys")
    for r in recs:
        if r["o"] == "ok" and (r["v"] != "ok" or r["res"] != r["rows"]):
            ctx.nontrivial_keys.add(k.key(r["rows"], r["n"]))
    ctx.extra["verdicts"] = {v: sum(1 for r in recs if r.get("v") == v) for v in ("ok", "notfullrank", "overdetermined")}
    ctx.extra["panics"] = sum(1 for r in recs if r["o"] != "ok")
    ctx.exhaustive = True
    ctx.samples = [k.sample_case(recs, 200), k.sample_case(recs, recs[-1]["i"])]
    ctx.assumptions = ["TLC 1.8 + Json/IOUtils", "for r > 7 rank witnesses come from the harness oracle and are VERIFIED by TLC"]


def c11(k, ctx):
    ctx.rule = ("one case = one (graph, root) with bfs distances and local girth for 9 bounds, or one graph with girth for 9 bounds; "
                "exhaustive over all bipartite graphs 3x3 and 2x4 (+ every 11th 3x4) in quick, 3x4, 4x3, 2x5 and every 7th 4x4 in thorough, "
                "every root; seeded random graphs up to 8x10 (forests, unicyclic, dense, disconnected, cycle + pendant path, two cycles "
                "sharing a node); non-trivial = distinct (graph, root) where the graph has at least one cycle")
    ctx.tlc_mc("MC_Bfs", "MC_Bfs_thorough.cfg" if ctx.thorough else "MC_Bfs.cfg")
    ctx.tlc_mc("MC_Bfs", "MC_Bfs_neg.cfg", expect_violation=True)       # first-collision local girth (as found, D3)
    ctx.tlc_mc("MC_Bfs", "MC_Bfs_asfound.cfg")                          # ... which is still a lower bound; girth and bfs exact
    ctx.vh("gen", "i2s")
    recs, rej = ctx.validate("Trace_C11")
    ctx.require_events("Node", "Girth")
    cyc = set()
    for r in recs:
        if r["e"] == "Girth" and r["o"] == "ok" and r["g"][0][1] != -1:
            cyc.add(k.key(r["rows"], r["nc"]))
    for r in recs:
        if r["e"] == "Node" and k.key(r["rows"], r["nc"]) in cyc:
            ctx.nontrivial_keys.add(k.key(r["rows"], r["nc"], r["root"]))
    ctx.exhaustive = True
    ctx.samples = [k.sample_case(recs, 300), k.sample_case(recs, recs[-1]["i"])]
    ctx.assumptions = ["TLC 1.8 + Json/IOUtils", "harness reports Option<usize> as -1/value verbatim"]


def c08(k, ctx):
    ctx.rule = ("Write cases: one matrix x padding through alist()/alist_no_padding()/write_alist and parsed back (exhaustive over all matrices up to "
                "3x3 quick / 3x4 thorough, random matrices up to 40x60 of densities 0..100% with empty rows/columns); Parse cases: valid texts, "
                "byte/line/token mutations of valid texts (CRLF, tabs, -1, 99999, 1e3, out-of-range indices, truncation, non-ASCII) and random token soups; "
                "non-trivial = distinct Write matrices with at least one empty row or column or irregular weights, plus distinct Parse texts that the model parser rejects or that contain padding zeros")
    ctx.tlc_mc("MC_Alist", "MC_Alist_thorough.cfg" if ctx.thorough else "MC_Alist.cfg")
    ctx.tlc_mc("MC_Alist", "MC_Alist_neg.cfg", expect_violation=True)     # no range check in the parser (as found, D2)
    ctx.tlc_mc("MC_Alist", "MC_Alist_neg2.cfg", expect_violation=True)    # padding count underflow (as found, D1)
    ctx.vh("gen", "i2s")
    recs, rej = ctx.validate("Trace_C08", cfg="Trace_C08.cfg")
    ctx.require_events("Write", "Parse")
    for r in recs:
        if r["o"] != "ok":
            continue
        if r["e"] == "Write":
            w = [len(c) for c in r["cols"]]
            if 0 in w or len(set(w)) > 1:
                ctx.nontrivial_keys.add(k.key("W", r["nr"], r["nc"], r["cols"], r["padded"]))
        elif r["pv"] == "err" or any(0 in ln for ln in r["lines"][4:]):
            ctx.nontrivial_keys.add(k.key("P", r["lines"]))
    ctx.extra["parse_outcomes"] = {v: sum(1 for r in recs if r["e"] == "Parse" and r.get("pv") == v) for v in ("ok", "err")}
    ctx.extra["panics"] = sum(1 for r in recs if r["o"] != "ok")
    ctx.samples = [k.sample_case(recs, 40), k.sample_case(recs, recs[-1]["i"] - 50)]
    ctx.assumptions = ["TLC 1.8 + Json/IOUtils", "harness tokeniser: lines split on \\n, tokens on Unicode whitespace, digit strings -> integers (as the format defines)",
                       "texts whose FIRST line declares a dimension above 20000 are not fed to the parser (property: moderate declared dimensions); texts with a larger number anywhere else (weights, indices, up to 2^64) are parsed in a child process under a 3 GiB address-space limit - a process that dies there is a violation, not a crash of the harness"]


def c01(k, ctx):
    ctx.rule = ("one case = one decode call on a freshly factory-built decoder: 36 names x seeded (matrix with row weight >= 2 up to 12x24 incl. duplicate rows, "
                "4-cycles, degree-0/1 variables, disconnected parts) x 13 LLR classes (1e30, subnormal, known bits at +-25..1e6 among ordinary values, 8-bit rounding boundaries, +-15.875, punctured zeros, "
                "codewords, near-codewords, weak) x limits {0,1,2,5,50}; non-trivial = distinct (impl, rows, hard_in, limit) whose input sign pattern is NOT a codeword")
    ctx.tlc_mc("MC_BP", "MC_BP_thorough.cfg" if ctx.thorough else "MC_BP.cfg")
    ctx.vh("gen", "i2s")
    recs, rej = ctx.validate("Trace_C01")
    ctx.require_events("Decode")
    import json as _j
    for r in recs:
        if r["o"] == "ok" and not (r["verdict"] == "ok" and r["iters"] == 0):
            ctx.nontrivial_keys.add(k.key(r["impl"], r["rows"], r["hard_in"], r["limit"]))
    ctx.extra["implementations"] = len({r["impl"] for r in recs})
    ctx.extra["verdicts"] = {v: sum(1 for r in recs if r.get("verdict") == v) for v in ("ok", "err")}
    ctx.extra["panics"] = sum(1 for r in recs if r["o"] != "ok")
    ctx.samples = [k.sample_case(recs, 7), k.sample_case(recs, recs[-1]["i"])]
    ctx.assumptions = ["TLC 1.8 + Json/IOUtils", "hard_in is the harness's projection llr <= 0.0 of the f64 input"]


def c10(k, ctx):
    ctx.rule = ("one case = one history of 5..20 decode calls on one long-lived factory-built decoder (36 names), mixing LLR classes, limits {0,1,3,20}, repeats of earlier "
                "arguments and forced limit-0 calls after iterating frames; each call is also made on a fresh decoder; non-trivial = distinct (impl, rows, key) calls at "
                "step >= 1 whose previous call in the history ran at least one iteration")
    ctx.tlc_mc("MC_BP", "MC_BP_hist_thorough.cfg" if ctx.thorough else "MC_BP_hist.cfg")
    ctx.tlc_mc("MC_BP", "MC_BP_hist_neg.cfg", expect_violation=True)     # flooding initialize() without output reset (as found, D4)
    ctx.vh("gen", "i2s")
    recs, rej = ctx.validate("Trace_C10")
    ctx.require_events("Call")
    prev = None
    for r in recs:
        if r["o"] == "ok" and prev is not None and prev["i"] == r["i"] and prev["o"] == "ok" and prev["res"]["iters"] > 0:
            ctx.nontrivial_keys.add(k.key(r["impl"], r["rows"], r["key"]))
        prev = r
    ctx.extra["implementations"] = len({r["impl"] for r in recs})
    ctx.extra["limit0_after_iterating"] = sum(1 for a, b in zip(recs, recs[1:]) if a["i"] == b["i"] and a["o"] == "ok" and b["o"] == "ok"
                                              and a["res"]["iters"] > 0 and b["limit"] == 0)
    ctx.samples = [k.sample_case(recs, 3, 3)]
    ctx.assumptions = ["TLC 1.8 + Json/IOUtils", "the fresh-decoder reference is built from a clone of the same matrix by the same factory name"]


def c05(k, ctx):
    ctx.rule = ("one case = one direct call of input_llr_quantize / send_var_messages / update_check_messages_and_vars on one of the 24 arithmetic types; 8-bit: "
                "NaN, +-inf, 1e300, every (j+-1/2)/8 boundary with its float neighbours, message vectors of degree 1..200 (random, +-127, alternating, "
                "degree one with |llr| around 116), layered states inside |var| <= 127*(deg+1); floats: degrees 1..200 at four scales; "
                "non-trivial = distinct calls where some clip/saturation/deg-1/Jones branch is active (8-bit: |sum| > 127 or degree one or quantiser boundary) or float calls of degree >= 2")
    ctx.tlc_mc("MC_Arith", "MC_Arith_thorough.cfg" if ctx.thorough else "MC_Arith.cfg")
    ctx.vh("gen", "i2s")
    recs, rej = ctx.validate("Trace_C05")
    ctx.require_events("Quant8", "Var8", "Layer8", "VarF", "LayerF", "QuantFam")
    for r in recs:
        if r["o"] != "ok":
            continue
        e = r["e"]
        if e == "Quant8" and (r["cmp"] == "eq" or abs(r["fl"]) >= 126 or r["cls"] != "fin"):
            ctx.nontrivial_keys.add(k.key(e, r["arith"], r["cls"], r["fl"], r["cmp"]))
        elif e == "Var8" and (len(r["in"]) == 1 or abs(r["llr"] + sum(p[1] for p in r["in"])) > 127):
            ctx.nontrivial_keys.add(k.key(e, r["arith"], r["llr"], r["in"]))
        elif e == "Layer8" and any(abs(v) > 127 for v in r["vars"]):
            ctx.nontrivial_keys.add(k.key(e, r["arith"], r["olds"], r["vars"]))
        elif e in ("VarF", "LayerF") and r["d"] >= 2:
            ctx.nontrivial_keys.add(k.key(e, r["arith"], r["i"]))
        elif e == "QuantFam":
            ctx.nontrivial_keys.add(k.key(e, r["dbg"]))
    ctx.extra["arithmetics"] = len({r["arith"] for r in recs if "arith" in r})
    ctx.samples = [k.sample_case(recs, 5), k.sample_case(recs, 400), k.sample_case(recs, recs[-1]["i"])]
    ctx.assumptions = ["TLC 1.8 + Json/IOUtils", "harness built with overflow-checks and debug-assertions so wrapping arithmetic in /repo panics",
                       "float references (f64 sums) and their distance in centibels are computed by the harness; the tolerance and inequality are TLC's"]


def c04(k, ctx):
    ctx.rule = ("one case = one direct call of send_check_messages on one of the 24 arithmetic types with shuffled non-contiguous source ids; 8-bit: degree 2 on a lattice "
                "(every pair in [-127,127]^2 in thorough), degree 3 on a 7^3 (17^3) lattice, random degrees up to 30 in 8 classes (ties, around the hard limit, +-127, one zero); "
                "floats: degrees 2..30 at five scales inside the working range + out-of-range probes; non-trivial = distinct calls with degree >= 3 or with a zero, a tie or a "
                "hard-limited magnitude among the inputs")
    ctx.tlc_mc("MC_Arith", "MC_Arith_thorough.cfg" if ctx.thorough else "MC_Arith.cfg")
    ctx.vh("gen", "i2s")
    recs, rej = ctx.validate("Trace_C04", timeout=3000)
    ctx.require_events("Check8", "CheckF")
    for r in recs:
        if r["o"] != "ok":
            continue
        if r["e"] == "Check8":
            v = [p[1] for p in r["in"]]
            if len(v) >= 3 or 0 in v or abs(v[0]) == abs(v[-1]) or max(abs(x) for x in v) >= 100:
                ctx.nontrivial_keys.add(k.key(r["arith"], r["in"]))
        elif r["d"] >= 3 or r["tied"]:
            ctx.nontrivial_keys.add(k.key(r["arith"], r["in"]))
    ctx.extra["arithmetics"] = len({r["arith"] for r in recs})
    ctx.samples = [k.sample_case(recs, 5), k.sample_case(recs, recs[-1]["i"] - 20)]
    ctx.assumptions = ["TLC 1.8 + Json/IOUtils", "float references: stable pairwise box-plus in f64 (harness oracle); 8-bit references: 8 x real-valued min*-approx / A-Min* at inputs/8",
                       "tolerances (Arith.tla) follow the error model K*d*eps*(1+e^|y|) for phi/tanh inside the working range |y| <= 30 (f64) / 12 (f32)"]


def c03(k, ctx):
    ctx.rule = ("Dec8 cases: the 20 factory-built 8-bit decoders (3 calls per object) on 1/8-grid LLRs vs BP.tla composed with Arith.tla; Decode cases: the real generic flooding / horizontal-layered decoder with the checker-supplied exact integer min-sum (value types scaled x3/x5/x7) on forests and "
                "loopy graphs up to 6x12, integer LLRs in +-2..+-40, limits {0,1,2,3,4,6,10}; Post cases: Phif64/Tanhf64/Phif32/Tanhf32 forced to iterate diameter(+3) times on "
                "random forests (<= 8 checks, <= 12 variables) vs brute-force posterior; non-trivial = distinct Decode cases that ran at least one iteration, plus all Post cases")
    ctx.tlc_mc("MC_BP", "MC_BP_thorough.cfg" if ctx.thorough else "MC_BP.cfg")       # C03Exact: tropical posterior on forests
    ctx.vh("gen", "i2s")
    recs, rej = ctx.validate("Trace_C03", timeout=3000)
    ctx.require_events("Decode", "Post", "Dec8")
    for r in recs:
        if r["o"] != "ok":
            continue
        if r["e"] == "Post" or r["iters"] > 0:
            ctx.nontrivial_keys.add(k.key(r.get("arith", ""), r.get("name", ""), r["sched"], r["rows"], r.get("llrs", r.get("llr_m", r.get("x8"))), r.get("limit", r.get("its"))))
    posts = [r for r in recs if r["e"] == "Post" and r["o"] == "ok"]
    reached = sum(1 for r in posts if r["rounds"] >= r["diam"])
    ctx.extra["posterior_cases_run_to_the_diameter"] = reached
    if posts and reached * 10 < len(posts) * 9 and not rej:      # (with rejected cases the run ends in VIOLATION lines anyway)
        # the wrapper that keeps the decoder iterating no longer works with this decoder: the posterior clause would be judged on (almost) nothing
        raise k.ToolError(f"vacuous run: only {reached} of {len(posts)} Post cases were run for at least graph-diameter iterations")
    ctx.extra["decode_verdicts"] = {v: sum(1 for r in recs if r["e"] == "Decode" and r.get("verdict") == v) for v in ("ok", "err")}
    ctx.extra["posterior_cases_in_working_range"] = sum(1 for r in recs if r["e"] == "Post" and r["o"] == "ok" and max(r["refc"]) <= (9 if r["f32"] else 25))
    ctx.extra["max_posterior_err_cb"] = {a: max([max(r["err_cb"]) for r in recs if r["e"] == "Post" and r["o"] == "ok" and r["arith"] == a] or [None])
                                         for a in ("Phif64", "Tanhf64", "Phif32", "Tanhf32")}
    ctx.samples = [k.sample_case(recs, 5), k.sample_case(recs, recs[-1]["i"])]
    ctx.assumptions = ["TLC 1.8 + Json/IOUtils", "IntMinSum in harness/src/c03.rs implements MinSum.tla (its own calls are what the real decoders route; a routing error changes results or trips the scaling assertions)",
                       "posterior reference: brute force over all codewords with log-sum-exp in f64 (harness oracle); tolerance in Trace_C03.tla",
                       "Post cases: a wrapper arithmetic keeps the syndrome test failing (first hard decision asked after message passing = 1); how a decoder asks is unspecified, so the rounds really run are counted and the clause is judged only at >= diameter rounds (a run where under 90% reach it is a tool error)"]


def c18(k, ctx):
    ctx.rule = ("Name cases: each of the 36 documented strings (parse, Display, clap value); Variants: clap's value list; NonMember: ~360 near-miss strings (case changes, "
                "prefixes/suffixes, truncations, HL on arithmetics without a layered form, unicode, whitespace); Table: fingerprints of the 36 factory-built and the 48 directly "
                "constructed generic decoders on a seeded family of (matrix, LLRs, limit) inputs that is checked to separate all 36 documented decoders; "
                "non-trivial = distinct Name cases + distinct NonMember strings within edit distance 1 or case-equal to a name")
    ctx.tlc_mc("MC_Factory")
    ctx.vh("gen", "i2s")
    recs, rej = ctx.validate("Trace_C18")
    ctx.require_events("Name", "Variants", "NonMember", "Table")
    names = {r["str"] for r in recs if r["e"] == "Name"}
    low = {n.lower() for n in names}
    for r in recs:
        if r["e"] == "Name":
            ctx.nontrivial_keys.add(k.key("N", r["str"]))
        elif r["e"] == "NonMember" and (r["str"].lower() in low or r["str"][:-1] in names or r["str"].strip() in names or ("HL" + r["str"]) in names or r["str"][2:] in names):
            ctx.nontrivial_keys.add(k.key("X", r["str"]))
    t = [r for r in recs if r["e"] == "Table"][0]
    ctx.extra["family_size"] = t["family"]
    ctx.extra["unseparated_documented_pairs"] = t["unseparated_pairs"]
    ctx.samples = [k.sample_case(recs, 30), k.sample_case(recs, 200), [{"e": "Table", "behave": t["behave"][:3], "direct": t["direct"][:3]}]]
    ctx.assumptions = ["TLC 1.8 + Json/IOUtils", "the harness splits a name into (starts with HL, rest); the 36 strings and 24 type names are typed from the documentation, not read from the enum",
                       "fingerprint = FNV-1a digest of the serialised results; equality of digests is taken as equality of behaviour on the family"]


def c15(k, ctx):
    ctx.rule = ("one case = one call of interleave (u32 / f64 / GF2 elements), deinterleave, puncture, depuncture or rate on tagged inputs (interleave and puncture take array views: inputs rotate through owned / stride -1 / stride 2 / stride -2 layouts): every (C, R, direction) up to 6x6 "
                "(8x8 thorough) + random shapes up to 40x40; every pattern up to length 5 (6) with a TRUE at every input length 0..3*len+2 (fitting and not fitting) + random patterns "
                "up to length 12; non-trivial = distinct cases with C >= 2 and R >= 2, or with a pattern that removes at least one block, or with a length that does not fit")
    ctx.tlc_mc("MC_Chain", "MC_Chain_thorough.cfg" if ctx.thorough else "MC_Chain.cfg")
    ctx.tlc_mc("MC_Chain", "MC_Chain_neg.cfg", expect_violation=True)      # inverse stages applied in the wrong order
    ctx.vh("gen", "i2s")
    recs, rej = ctx.validate("Trace_C15")
    ctx.require_events("Il", "Dl", "Pu", "De", "Ra")
    for r in recs:
        if r["e"] in ("Il", "Dl"):
            n = len(r["x"])
            if r["C"] >= 2 and n // r["C"] >= 2:
                ctx.nontrivial_keys.add(k.key(r["e"], r["C"], n, r["back"], r.get("ty")))
        elif r["e"] in ("Pu", "De") and (0 in r["pat"] or r.get("v") == "err"):
            ctx.nontrivial_keys.add(k.key(r["e"], r["pat"], len(r["x"])))
    ctx.extra["misfit_cases"] = sum(1 for r in recs if r.get("v") == "err")
    ctx.exhaustive = True
    ctx.samples = [k.sample_case(recs, 40), k.sample_case(recs, recs[-1]["i"] - 3)]
    ctx.assumptions = ["TLC 1.8 + Json/IOUtils", "inputs are position tags (values 1..n), so every output index is observable"]


def c14(k, ctx):
    ctx.rule = ("one case = one modulated triple/bit (through four memory layouts of the input array), one demodulated sample (polar grid radius 0..1000 x 16/64 angles x sigma 1e-12..1e9 through both public constructors, "
                "random samples, BPSK line), or one noiseless round trip (every bit sequence up to length 9 (12) for 8PSK and 6 for BPSK, random long ones, four layouts); "
                "non-trivial = distinct demodulation cases whose sample is not a constellation point + round trips of at least two symbols")
    ctx.tlc_mc("MC_Psk")
    ctx.vh("gen", "i2s")
    recs, rej = ctx.validate("Trace_C14")
    ctx.require_events("Table", "Mod8", "ModB", "Dem8", "DemB", "Round")
    for r in recs:
        if r["e"] in ("Dem8", "DemB") and r["o"] == "ok":
            ctx.nontrivial_keys.add(k.key(r["e"], r.get("dbg", r["i"])))
        elif r["e"] == "Round" and len(r["bits"]) >= (6 if r["mod"] == "8psk" else 2):
            ctx.nontrivial_keys.add(k.key(r["mod"], r["layout"], r["bits"]))
    ctx.extra["max_err_minus_scale_cb"] = max([max(x["err_cb"] for x in r["llr"]) - max(0, r["scale_cb"]) for r in recs if r["e"] == "Dem8" and r["o"] == "ok"])
    ctx.samples = [k.sample_case(recs, 1), k.sample_case(recs, 60), k.sample_case(recs, recs[-1]["i"])]
    ctx.assumptions = ["TLC 1.8 + Json/IOUtils", "posterior reference: max-shifted log-sum-exp in f64 over the constellation table of Psk.tla (the harness copy is checked against the spec by the Table event)",
                       "tolerance 1e-13 * max(1, max_s |<r,s>|/sigma^2) (Trace_C14.tla)"]


def c12(k, ctx):
    ctx.rule = ("Sizes cases: BerTestBuilder.build() for every pattern up to length 7 (9) x fitting codeword sizes (incl. 6-of-7 x 35, 10-of-11 x 33); Frame cases: frames seen by a recording "
                "decoder injected through DecoderFactory in real BER runs at 35 dB over {BPSK, 8PSK} x {none, 4 patterns} x {none, +-2, +-3, 4, +-5 columns} on four systematic codes; Run cases: the "
                "statistics of those runs (the decoder flips exactly one systematic bit per error frame); Noise cases: LLR moments of runs at 2 dB and 6 dB vs a reference chain; "
                "non-trivial = distinct Frame cases with puncturing or interleaving + Sizes cases with a pattern that removes a block + Noise cases")
    ctx.tlc_mc("MC_Chain", "MC_Chain_thorough.cfg" if ctx.thorough else "MC_Chain.cfg")
    ctx.tlc_mc("MC_Chain", "MC_Chain_neg.cfg", expect_violation=True)
    ctx.vh("gen", "i2s", timeout=3000)
    recs, rej = ctx.validate("Trace_C12", timeout=3000)
    ctx.require_events("Sizes", "Frame", "Run", "Noise")
    for r in recs:
        if r["o"] != "ok":
            continue
        if r["e"] == "Frame" and (r["cfg"]["usep"] or r["cfg"]["useil"]):
            c = r["cfg"]
            ctx.nontrivial_keys.add(k.key("F", c["ncw"], c["bps"], c["pat"], c["C"], c["back"], c["useil"], r["hard"]))
        elif r["e"] == "Sizes" and 0 in r["pat"]:
            ctx.nontrivial_keys.add(k.key("S", r["ncw"], r["pat"]))
        elif r["e"] == "Noise":
            ctx.nontrivial_keys.add(k.key("N", r["i"]))
    ctx.extra["chain_configurations_run"] = sum(1 for r in recs if r["e"] == "Run")
    ctx.extra["noise_llrs"] = sum(r["N"] for r in recs if r["e"] == "Noise" and r["o"] == "ok")
    ctx.extra["noise_runs_by_number_of_workers_that_delivered_frames"] = {str(w): sum(1 for r in recs if r["e"] == "Noise" and r["o"] == "ok" and r["workers"] == w)
                                                                             for w in sorted({r["workers"] for r in recs if r["e"] == "Noise" and r["o"] == "ok"})}
    ctx.samples = [k.sample_case(recs, 10), [{kk: v for kk, v in r.items() if kk not in ("nx", "li")} for r in recs if r["e"] == "Noise"][:1],
                   [{kk: v for kk, v in r.items() if kk not in ("nx", "li")} for r in recs if r["e"] == "Frame" and r["cfg"]["usep"] and r["cfg"]["useil"]][:1]]
    ctx.assumptions = ["TLC 1.8 + Json/IOUtils", "the injected decoder only records (length, exact-zero positions, sign pattern) and answers by script; it never sees the message",
                       "35 dB Eb/N0: noise cannot flip a sign (> 50 sigma)", "reference moments: public Modulator/Demodulator + the harness's own Gaussian source with sigma from the stated formula; bands of 3-4 % (10 standard errors)"]


def c13(k, ctx):
    ctx.rule = ("one case = one run of the real BerTest::run in a child process under a watchdog: worker counts {1,2,3,8} (thorough: 1,2,3,5,8,16) via CPU affinity, a scripted decoder with "
                "per-worker outcome scripts and random 0-200 us delays, with/without the outer-code threshold, 1-2 Eb/N0 points, Reporter interval 0; plus fault injection: puncturer misfit "
                "(stage error), interleaver misfit and 8PSK misfit (stage panics in every worker), decoder panicking in some workers; non-trivial = distinct runs with at least two workers or a fault")
    ctx.tlc_mc("MC_BerEngine", "MC_BerEngine_thorough.cfg" if ctx.thorough else "MC_BerEngine.cfg")
    if ctx.thorough:
        ctx.tlc_mc("MC_BerEngine", "MC_BerEngine_all.cfg", timeout=2400)       # all four outcome kinds (incl. "gave up but right") at W = 2
    ctx.tlc_mc("MC_BerEngine", "MC_BerEngine_bch.cfg")
    ctx.tlc_mc("MC_BerEngine", "MC_BerEngine_live.cfg", coverage=False)                       # liveness: termination under weak fairness, all fault modes
    ctx.tlc_mc("MC_BerEngine", "MC_BerEngine_neg.cfg", expect_violation=True)                 # collector keeps a sender + stage panic: blocked in recv (D7)
    ctx.tlc_mc("MC_BerEngine", "MC_BerEngine_neg2.cfg", expect_violation=True)                # join().unwrap() on a panicked worker
    ctx.tlc_mc("MC_BerEngine", "MC_BerEngine_neg3.cfg", expect_violation=True)                # bounded result channel: worker blocked in send at join
    ctx.tlc_mc("MC_BerEngine", "MC_BerEngine_neg4.cfg", expect_violation=True, coverage=False)  # ... which violates Termination (liveness)
    if ctx.thorough:
        # extra evidence only: Apalache inductive invariant for the unbounded statistics rule (never changes the exit status)
        ctx.extra["apalache"] = k.apalache_inductive(ctx, "BerStatsInd.tla", "BerStatsIndNeg.tla")
    ctx.vh("gen", "i2s", timeout=3000)
    recs, rej = ctx.validate_search("Trace_C13")
    ctx.require_events("BerRun")
    for r in recs:
        if r["cfg"]["W"] >= 2 or r["cfg"]["fault"] != "none":
            ctx.nontrivial_keys.add(k.key(r["cfg"]))
    ctx.extra["runs_by_fault"] = {f: sum(1 for r in recs if r["cfg"]["fault"] == f) for f in ("none", "puncturer_misfit", "interleaver_misfit", "psk8_misfit", "decoder_panic")}
    ctx.extra["results"] = {f: sum(1 for r in recs if r["result"] == f) for f in ("ok", "error", "panic", "hang", "abort")}
    ctx.extra["worker_counts_requested"] = sorted({r["cfg"]["W"] for r in recs})
    ctx.extra["worker_counts_observed"] = sorted({r["built"] // r["cfg"]["epochs"] for r in recs if r["built"]})
    ctx.extra["frames_consumed"] = sum(s["frames"] for r in recs for s in r["stats"])
    def short(r):
        return {"cfg": r["cfg"], "result": r["result"], "stats": r["stats"], "reports": len(r["reports"]), "workers": [len(w) for w in r["workers"]]}
    ctx.samples = [short(recs[3]), short(recs[-1])]
    ctx.assumptions = ["TLC 1.8 + Json/IOUtils", "the scripted decoder is the only source of frame outcomes: it logs (decoder id, sequence number, flips, verdict, iterations); bit errors = flips relies on C12",
                       "thread schedules of the real engine cannot be enumerated, only perturbed; every interleaving IS enumerated in BerEngine.tla", "watchdog: 20 s per run"]


def c16(k, ctx):
    ctx.rule = ("Mkn / Peg cases: one (configuration, seed) run whose final matrix is replayed as an insertion trace (grids over rows 3..12, cols <= 24, wr, wc, both policies, "
                "min girth none/4/6/8, backtracking, 6 (20) seeds each; failures are counted, not judged); Twice: same config+seed again and on another thread; Seeds: digests over consecutive "
                "seeds; Search: the rayon seed search under 1/4/16 threads vs sequential runs of every seed in range (tries 0..20); Sel / Min / Cmp: util.rs called directly through the cfg-guarded hook on vectors of "
                "length 0..10 over 1..4 key values (many ties), every n in 0..len+1, 64 seeds each; non-trivial = distinct successful runs with a girth "
                "constraint, backtracking, or the uniform policy, Search cases with at least one succeeding seed, and selections with a tie at the cut")
    for c in ("MC_MacKayNeal_1.cfg", "MC_MacKayNeal_2.cfg", "MC_MacKayNeal_3.cfg"):
        ctx.tlc_mc("MC_MacKayNeal", c)
    ctx.tlc_mc("MC_Peg", "MC_Peg.cfg")
    ctx.tlc_mc("MC_Peg", "MC_Peg_2.cfg")
    ctx.tlc_mc("MC_Util", "MC_Util.cfg", workers=4)                               # util.rs selections = exactly the legal selections
    ctx.tlc_mc("MC_Util", "MC_Util_neg.cfg", workers=2, expect_violation=True)
    ctx.tlc_mc("MC_Bfs", "MC_Bfs_asfound.cfg" if False else "MC_Bfs.cfg")      # the local-girth / distance algorithms the constructions rely on
    ctx.vh("gen", "i2s", timeout=3000)
    recs, rej = ctx.validate("Trace_C16", timeout=3000)
    ctx.require_events("Mkn", "Peg", "Twice", "Seeds", "Search", "Sel", "Min", "Cmp")
    for r in recs:
        if r["e"] == "Mkn" and r.get("res") == "ok" and (r["cfg"]["min_girth"] != -1 or r["cfg"]["bt_trials"] > 0 or r["cfg"]["uniform"]):
            ctx.nontrivial_keys.add(k.key("M", r["cfg"], r["seed"]))
        elif r["e"] == "Peg" and r.get("res") == "ok":
            ctx.nontrivial_keys.add(k.key("P", r["cfg"], r["seed"]))
        elif r["e"] == "Search" and r["o"] == "ok" and r["ok_seeds"]:
            ctx.nontrivial_keys.add(k.key("S", r["cfg"], r["start"], r["tries"], r["threads"]))
        elif r["e"] in ("Sel", "Min") and r["o"] == "ok" and r.get("distinct", 0) >= 2:
            ctx.nontrivial_keys.add(k.key("U", r["e"], r["keys"], r.get("n"), r["seed"]))
    ctx.extra["runs"] = {"mkn_ok": sum(1 for r in recs if r["e"] == "Mkn" and r.get("res") == "ok"), "mkn_err": sum(1 for r in recs if r["e"] == "Mkn" and r.get("res") == "err"),
                         "peg_ok": sum(1 for r in recs if r["e"] == "Peg" and r.get("res") == "ok"), "search_found": sum(1 for r in recs if r["e"] == "Search" and r.get("found")),
                         "search_none": sum(1 for r in recs if r["e"] == "Search" and r.get("found") is False)}
    ctx.samples = [k.sample_case(recs, 2), [x for x in (k.sample_case(recs, r["i"]) for r in recs if r["e"] == "Search" and r.get("found"))][:1]]
    ctx.assumptions = ["TLC 1.8 + Json/IOUtils", "insertion order inside a column is read from iter_col (a hint only: TLC accepts any order of a PEG column's edges that satisfies the guards)",
                       "sequential runs of the seeds in range (the reference for Search) use the same real run()"]


def c06(k, ctx):
    ctx.rule = ("one case = one of the 21 DVB-S2 code identifiers with its real matrix: every column of the 10 short codes (every column of all 21 in thorough), for normal codes in quick all base "
                "addresses + 12 sampled 360-column groups + ~400 sampled parity columns; encoder acceptance under a stopwatch with 3 encodings; SHA-256 of the canonical alist vs pins/dvbs2.json; "
                "non-trivial = the 21 distinct codes (exhaustive over the identifier set)")
    ctx.tlc_mc("MC_QcCode", "MC_QcCode_thorough.cfg" if ctx.thorough else "MC_QcCode.cfg", workers=4)
    ctx.vh("gen", "i2s", timeout=3000)
    recs, rej = ctx.validate("Trace_C06", timeout=3000, xmx="12g")
    ctx.require_events("Dvb")
    for r in recs:
        ctx.nontrivial_keys.add(r.get("code"))
    ctx.exhaustive = True
    ctx.extra["codes"] = len(recs)
    ctx.extra["columns_checked_against_the_law"] = sum(360 * len(r.get("groups", [])) for r in recs)
    ctx.extra["encoder_ms"] = {r["code"]: r["enc"]["ms"] for r in recs if r["o"] == "ok"}
    ctx.samples = [{"code": r["code"], "rows": r["rows"], "cols": r["cols"], "base_group_0": r["base"][0], "sha": r["sha"], "enc": r["enc"]} for r in recs[:2] if r["o"] == "ok"]
    ctx.assumptions = ["TLC 1.8 + Json/IOUtils", "k, q and the degree profiles in QcCode.tla are typed from EN 302 307-1; no offline copy of Annex B/C exists, so the address tables themselves are only compared with "
                       "pins generated from the repaired tree (future changes), plus the structural laws (distinctness, degree profile, 4-cycle freedom) on today's tables",
                       "syndrome / prefix of the encodings and the SHA-256 digest are computed by the harness", "the 4-cycle criterion on base addresses is proved equivalent to Tanner!Girth # 4 by TLC on scaled-down instances (MC_QcCode)"]


def c07(k, ctx):
    ctx.rule = ("one case = one CCSDS code with its real matrix as row adjacency lists: the six AR4JA codes with k = 1024 / 4096 (all nine in thorough; in quick the three k = 16384 codes are judged on size, column degrees and digest only) and C2; ranks by bit-packed "
                "elimination; encoder acceptance and encodings for the codes up to 768 (1536 thorough) rows; girth of rate-1/2 k=1024 and of C2; SHA-256 vs pins/ccsds.json; "
                "non-trivial = the distinct codes (exhaustive over the identifier set of the tier)")
    ctx.tlc_mc("MC_Ccsds", "MC_Ccsds.cfg")
    ctx.tlc_mc("MC_Ccsds", "MC_Ccsds_neg.cfg", expect_violation=True)       # insert-only expansion where two permutations collide
    ctx.vh("gen", "i2s", timeout=6000)
    recs, rej = ctx.validate("Trace_C07", timeout=6000, xmx="16g")
    ctx.require_events("Ar4ja", "C2")
    for r in recs:
        ctx.nontrivial_keys.add(r.get("code"))
    ctx.exhaustive = True
    ctx.extra["codes"] = [r.get("code") for r in recs]
    ctx.extra["ranks"] = {r["code"]: [r["rank"], r["tail_rank"]] for r in recs if r["o"] == "ok" and "rank" in r}
    ctx.extra["encoder_probed"] = [r["code"] for r in recs if r["o"] == "ok" and "enc" in r and not r["enc"].get("skipped")]
    ctx.samples = [{"code": r["code"], "nrows": r["nrows"], "ncols": r["ncols"], "row_0": r["rows"][0], "rank": r["rank"], "sha": r["sha"], "cyc6": r["cyc6"]} for r in recs[:1] + recs[-1:] if r["o"] == "ok" and "rows" in r]
    ctx.assumptions = ["TLC 1.8 + Json/IOUtils", "M table, protograph weights and C2 parameters typed from CCSDS 131.0-B; theta/phi tables and circulant offsets only compared with pins taken from the unchanged tree",
                       "GF(2) ranks, the 4-cycle test and SHA-256 are harness oracles (bit-packed elimination; sorted column pairs); the 6-cycle witnesses are verified by TLC edge by edge",
                       "encoder acceptance is probed only where the dense Gauss-Jordan of from_h finishes in seconds (<= 768 rows quick, <= 1536 thorough); invertibility of the last 3M columns is otherwise established by the rank oracle"]


def c19(k, ctx):
    ctx.rule = ("one case = one scenario in a child process: a constructor call (36 names x file/string x 5 patterns; encoders on systematic codes; failures: ~36 malformed alists, 10 near-miss "
                "names, 11 malformed patterns on both constructors, unreadable paths, singular tails), followed for valid handles by 6 decode calls (f64/f32, output lengths 0..n, limits 0..50, "
                "13 LLR classes) or 6 encode calls interleaved over two handles (from the third call on some bytes are neither 0 nor 1: such a call is compared with a fresh handle given the same buffer); non-UTF-8 C strings as pattern / name / alist; each C call is paired with the Rust API result on fresh objects; non-trivial = distinct Decode/Encode calls + "
                "constructor failures")
    ctx.tlc_mc("MC_Factory")
    ctx.vh("gen", "i2s", timeout=3000)
    recs, rej = ctx.validate("Trace_C19")
    ctx.require_events("Ctor", "Decode", "Encode")
    for r in recs:
        if r["e"] in ("Decode", "Encode"):
            ctx.nontrivial_keys.add(k.key(r["i"], r.get("idx")))
        elif r.get("why") != "valid":
            ctx.nontrivial_keys.add(k.key(r["i"]))
    ctx.extra["constructor_outcomes"] = {w: [sum(1 for r in recs if r["e"] == "Ctor" and r["why"] == w and r.get("null") is True),
                                             sum(1 for r in recs if r["e"] == "Ctor" and r["why"] == w and r.get("null") is False)]
                                         for w in ("valid", "alist", "name", "pattern", "file", "singular")}
    ctx.extra["aborts"] = sum(1 for r in recs if r["o"] != "ok")
    ctx.samples = [k.sample_case(recs, 1, 3), k.sample_case(recs, recs[-1]["i"])]
    ctx.assumptions = ["TLC 1.8 + Json/IOUtils", "references come from the public Rust API on fresh objects (build_decoder + Puncturer::depuncture; Encoder::from_h + puncture), whose own correctness is C01-C05, C10, C15, C02",
                       "alist texts that parse to a matrix with more rows than columns are outside C02's domain and are not given to the encoder constructor",
                       "patterns fit the codeword length and contain a TRUE (an all-false or non-fitting pattern has no valid buffer length)"]


def c20(k, ctx):
    ctx.rule = ("one case = one run of the binary built from the working tree: dvbs2 over 16 rate strings x 2 frame sizes (all 21 valid combinations + invalid ones), ccsds over 6 rates x 6 block sizes, "
                "ccsds-c2, the three documented --girth runs, peg / mackay-neal (uniform, min-girth, --search) against Config::run(seed), systematic on full-rank / deficient / square / malformed / missing "
                "files, encode with 0-3 words, trailing partial words, with/without puncturing and non-fitting patterns, ber at -4..-2 dB with/without the outer code and 8PSK; "
                "non-trivial = distinct argument vectors")
    ctx.tlc_mc("MC_Cli")
    ctx.tlc_mc("MC_EncodeStream", "MC_EncodeStream.cfg", workers=2)                          # the encode loop: exact output, prefix property, termination
    ctx.tlc_mc("MC_EncodeStream", "MC_EncodeStream_neg.cfg", workers=2, expect_violation=True)   # defect D8: whole buffer written
    ctx.tlc_mc("MC_EncodeStream", "MC_EncodeStream_neg2.cfg", workers=2, expect_violation=True)  # information word not reset between words
    cli = k.build_cli()
    ctx.vh("gen", "i2s", timeout=3000, env={"VH_CLI": cli})
    recs, rej = ctx.validate("Trace_C20", timeout=3000)
    ctx.require_events("Gen", "Construct", "Sys", "Encode", "Ber", "Girth", "BerIn")
    for r in recs:
        ctx.nontrivial_keys.add(k.key(r["argv"]))
        r.pop("lib", None)
    ctx.extra["runs_by_subcommand"] = {}
    for r in recs:
        sub = r["argv"][0]
        ctx.extra["runs_by_subcommand"][sub] = ctx.extra["runs_by_subcommand"].get(sub, 0) + 1
    ctx.extra["nonzero_exits"] = sum(1 for r in recs if r.get("status", 0) != 0)
    ctx.samples = [k.sample_case(recs, 4), k.sample_case(recs, recs[-1]["i"])]
    ctx.assumptions = ["TLC 1.8 + Json/IOUtils", "stdout is compared through the canonical alist of the matrix it parses to (SHA-256 by the harness); library-side digests are computed in-process from Code::h()",
                       "references for encode come from the public Encoder / Puncturer (C02, C15)", "8PSK is selected with the clap value PSK8"]


PIPELINES = {"C20": c20, "C19": c19, "C07": c07, "C06": c06, "C16": c16, "C13": c13, "C12": c12, "C14": c14, "C15": c15, "C18": c18, "C03": c03, "C04": c04, "C05": c05, "C01": c01, "C10": c10, "C08": c08, "C11": c11, "C02": c02, "C09": c09, "C17": c17}
NOT_YET = {}


# ------------------------------------------------------------------------------------------------
# Validation of the machinery itself (./check --selftest): binding demos, oracle qualification.
# (Negative models are part of every pipeline: ctx.tlc_mc(..., expect_violation=True).)
def _set(ev, path, fn):
    cur = ev
    for p in path[:-1]:
        cur = cur[p]
    cur[path[-1]] = fn(cur[path[-1]])


def _flipbit(w):
    w = list(w)
    w[0] ^= 1
    return w


# property -> (trace spec, cfg, [(event name, predicate on event, path, mutation, what)])
BINDING = {
    "C01": ("Trace_C01", "Trace.cfg", [("Decode", lambda e: e["verdict"] == "ok" and e["iters"] > 0 and any(0 in r for r in e["rows"]), ["word"], _flipbit, "flip a checked bit of a successful word"),
                                       ("Decode", lambda e: e["verdict"] == "err" and e["limit"] > 0, ["iters"], lambda x: x - 1, "iteration count of a failure below the limit")]),
    "C02": ("Trace_C02", "Trace.cfg", [("Enc", lambda e: e.get("acc") and len(e["pairs"]) > 1, ["pairs", 1, "c"], _flipbit, "flip a bit of a codeword"),
                                       ("Enc", lambda e: e.get("acc") is False, ["acc"], lambda x: True, "claim acceptance of a singular tail")]),
    "C05": ("Trace_C05", "Trace.cfg", [("Var8", lambda e: len(e["out"]) > 1, ["out", 0, 1], lambda x: x + 1 if x < 127 else x - 1, "one outgoing message off by one"),
                                       ("Quant8", lambda e: e["cls"] == "fin" and abs(e["fl"]) < 100 and e["cmp"] != "eq", ["got"], lambda x: x + 1, "quantiser result off by one")]),
    "C08": ("Trace_C08", "Trace_C08.cfg", [("Write", lambda e: len(e["lines"]) > 5 and len(e["lines"][4]) > 1, ["lines", 4], lambda ln: list(reversed(ln)), "column list not sorted"),
                                           ("Parse", lambda e: e.get("pv") == "ok" and e.get("pnc", 0) > 0, ["pnc"], lambda x: x + 1, "parser reports another size")]),
    "C09": ("Trace_C09", "Trace.cfg", [("Sys", lambda e: e.get("v") == "ok" and e["n"] > e["r"], ["res", 0], lambda r: [c for c in range(9) if c not in r][:max(1, len(r))], "a row of the result changed")]),
    "C10": ("Trace_C10", "Trace.cfg", [("Call", lambda e: e["step"] >= 1 and e["o"] == "ok", ["res", "word"], _flipbit, "result differs from the fresh decoder")]),
    "C11": ("Trace_C11", "Trace.cfg", [("Node", lambda e: e["o"] == "ok" and e["lg"][0][1] != -1, ["lg", 0, 1], lambda x: x + 2, "local girth off by two"),
                                       ("Node", lambda e: e["o"] == "ok" and max(e["rd"]) > 0, ["rd"], lambda d: [x + 2 if x > 0 else x for x in d], "distances off by two")]),
    "C15": ("Trace_C15", "Trace.cfg", [("Il", lambda e: len(e["y"]) > 3 and e["C"] > 1 and len(e["x"]) // e["C"] > 1, ["y"], lambda y: [y[1], y[0]] + y[2:], "two outputs swapped"),
                                       ("De", lambda e: e.get("v") == "ok" and 0 in e["pat"] and len(e["y"]) > 0, ["y"], lambda y: [v or 1 for v in y], "removed block not zero")]),
    "C16": ("Trace_C16", "Trace.cfg", [("Sel", lambda e: e["o"] == "ok" and not e["res"]["none"] and 2 <= e["n"] < len(e["keys"]),
                                        ["res", "sel"], lambda r: [r[0]] * len(r), "a selection that returns one item twice"),
                                       ("Min", lambda e: e["o"] == "ok" and len(e["keys"]) >= 2 and max(e["keys"]) > min(e["keys"]),
                                        ["keys"], lambda ks: [max(ks) + 1 - x for x in ks], "a minimum that is not minimal"),
                                       ("Peg", lambda e: e.get("res") == "ok" and e["cfg"]["wc"] >= 2 and e["cfg"]["nr"] > 3, ["cols", 2], lambda c: [c[0]] * len(c), "a PEG column with a repeated check")]),
    "C17": ("Trace_C17", "Trace.cfg", [("Op", lambda e: e["o"] == "ok" and len(e["obs"]["rw"]) > 0, ["obs", "rw", 0], lambda x: x + 1, "row weight off by one")]),
    "C18": ("Trace_C18", "Trace.cfg", [("Name", lambda e: True, ["show"], lambda x: x + "x", "Display string differs"),
                                       ("NonMember", lambda e: e["str"] == "phif64", ["cli"], lambda x: "Phif64", "the command line folds case"),
                                       ("Table", lambda e: True, ["behave", 3, "fp"], lambda x: x[::-1], "a factory decoder behaves differently")]),
    "C19": ("Trace_C19", "Trace.cfg", [("Decode", lambda e: e["o"] == "ok" and e["ref"]["verdict"] == "ok", ["ret"], lambda x: -1, "success reported as failure"),
                                       ("Ctor", lambda e: e["o"] == "ok" and e["why"] == "pattern", ["null"], lambda x: False, "malformed pattern accepted")]),
}


def selftest(k):
    """Binding demos: take a passing trace, corrupt ONE field of ONE event, require TLC to reject exactly that case."""
    import copy, json as _json
    failures = 0
    for prop, (spec, cfg, muts) in sorted(BINDING.items()):
        ctx = k.Ctx(prop, "quick", 4242)
        path = ctx.vh("gen", "i2s", timeout=3000)
        evs = [_json.loads(l) for l in open(path) if l.strip()]
        if prop in ("C10", "C17"):           # stateful trace specs: keep whole cases
            evs = evs[:3000]
        else:                               # one event per case: any subset is a valid trace
            evs = evs[::max(1, len(evs) // 3000)]
        for (ename, pred, fpath, fn, what) in muts:
            cand = [n for n, e in enumerate(evs) if e["e"] == ename and e.get("o", "ok") == "ok" and pred(e)]
            if not cand:
                print(f"selftest {prop}: no event to corrupt for '{what}'")
                failures += 1
                continue
            n = cand[len(cand) // 2]
            bad = copy.deepcopy(evs)
            _set(bad[n], fpath, fn)
            tp = os.path.join(ctx.work, "corrupt.ndjson")
            with open(tp, "w") as f:
                for e in bad:
                    f.write(_json.dumps(e) + "\n")
            c2 = k.Ctx(prop, "quick", 4243)
            c2.traces = [("corrupt", tp)]
            recs, rej = c2.validate(spec, cfg=cfg)
            want = bad[n]["i"]
            got = sorted({r["event"]["li"] for r in rej})
            ok = got == [want]
            print(f"selftest {prop}: '{what}' -> rejected cases {got[:5]} (corrupted case {want}) {'OK' if ok else 'FAILED'}")
            failures += 0 if ok else 1
            import shutil
            shutil.rmtree(c2.work, ignore_errors=True)
        import shutil
        shutil.rmtree(ctx.work, ignore_errors=True)
    # oracle qualification
    ctx = k.Ctx("SELFTEST", "quick", 1)
    ctx.vh("gen", "oracle", prop="SELFTEST")
    recs, rej = ctx.validate("Trace_Selftest")
    print(f"selftest oracles: {len(recs)} cases, {len(rej)} disagreements with GF2!Rank / Tanner!Girth / tanh product")
    failures += len(rej)
    print("selftest:", "all passed" if failures == 0 else f"{failures} FAILED")
    return 0 if failures == 0 else 2
