"""Per-property pipelines: which specifications TLC checks at design level, which behaviours it hands to
the harness (spec -> impl), which traces the harness records (impl -> spec), and the trace specification
that judges them.  `k` is the driver module (./check), `ctx` a k.Ctx."""
import glob, json, os, subprocess


def setup(k):
    k.build_vh()
    bad = 0
    for tla in sorted(glob.glob(os.path.join(k.SPEC, "*.tla"))):
        rc, out, _ = k.run(["tla-sany", os.path.basename(tla)], 120, cwd=k.SPEC)
        if rc != 0 or "error" in out.lower().replace("semantic errors:\n\n", ""):
            if "Parsing or semantic analysis failed" in out or rc != 0:
                print(out[-1500:])
                bad += 1
    print(f"setup: harness built, {len(glob.glob(os.path.join(k.SPEC, '*.tla')))} modules parsed, {bad} failed")
    return 2 if bad else 0


# ------------------------------------------------------------------------------------------------
def c17(k, ctx):
    ctx.rule = ("one case = one operation history on one SparseMatrix (spec->impl: TLC-simulated behaviours of "
                "Sparse.tla on 3x3; impl->spec: seeded random histories on 8 shapes up to 6x8, biased to "
                "re-insert present / remove absent entries); non-trivial = distinct (shape, op, args, resulting set) "
                "steps that changed the matrix or were a no-op on purpose")
    # design level: the two-list implementation refines the set of positions
    ctx.tlc_mc("MC_Sparse", "MC_Sparse.cfg" if not ctx.thorough else "MC_Sparse_thorough.cfg")
    # spec -> impl
    cases, n = ctx.tlc_cases("MC_SparseSim", "MC_SparseSim.cfg",
                             simulate=(2000 if ctx.thorough else 300, 33))
    ctx.vh("replay", "s2i", ["--in", cases])
    # impl -> spec
    ctx.vh("gen", "i2s")
    recs, rej = ctx.validate("Trace_C17")
    ctx.require_events("New", "Op")
    for r in recs:
        if r["e"] == "Op" and r["o"] == "ok":
            ctx.nontrivial_keys.add(k.key(r["obs"]["nr"], r["obs"]["nc"], r["op"], r["r"], r["c"], r["idx"], r["obs"]["cells"]))
    ctx.samples = [k.sample_case(recs, 1, 3), k.sample_case(recs, recs[-1]["i"], 3)]
    ctx.assumptions = ["TLC 1.8 + CommunityModules Json/IOUtils", "harness projection (contains / weights / iterators dumped verbatim)",
                       "indices passed to the matrix are in range (out-of-range panics are documented behaviour)"]


PIPELINES = {"C17": c17}
NOT_YET = {}


def selftest(k):
    print("selftest: nothing registered yet")
    return 0
