#!/usr/bin/env python3
"""Rewrite section 14 of DESIGN.md from seeded/*/meta.json, seeded/NOTES.json and benign/*/meta.json."""
import glob, json, os, re, subprocess
D = '/verif/DESIGN.md'
s = open(D).read()
i = s.index('## 14. Seeded changes and the checks that catch them')
m = re.search(r'\n## 15\. ', s[i:])
tail = s[i + m.start():] if m else ''
table = subprocess.run(['python3', '/verif/tools/gen_seeded_table.py'], capture_output=True, text=True).stdout
metas = [json.load(open(p)) for p in sorted(glob.glob('/verif/seeded/C*-m*/meta.json'))]
n = len(metas); caught = sum(1 for x in metas if x.get('detected_by'))
own = sum(1 for x in metas if x['property'] in (x.get('detected_by') or []))
notes = json.load(open('/verif/seeded/NOTES.json'))
first_missed = sum(1 for k, v in notes.items() if v.startswith('first'))
ben = [json.load(open(p)) for p in sorted(glob.glob('/verif/benign/C*-b*/meta.json'))]
brow = ["| change | what it does (sub-agent's title) | alarms raised by the 20 quick checks | verdict |", "|---|---|---|---|"]
BN = json.load(open('/verif/benign/NOTES.json')) if os.path.exists('/verif/benign/NOTES.json') else {}
for b in ben:
    t = open(f"/verif/benign/{b['name']}/README.md").readline().strip().lstrip('#').strip().replace('|', '/')
    al = b.get('alarms')
    brow.append(f"| {b['name']} | {t} | {'not run yet' if al is None else (', '.join(al) or 'none')} | {BN.get(b['name'], '')} |")
text = f"""## 14. Seeded changes and the checks that catch them

Independent sub-agents were given only the text of one property and a scratch worktree and asked
for two realistic changes each that break it, compile, pass the 42 tests and need something specific
to manifest; six and a half rounds (m1/m2; m3/m4 with the first round's locations excluded; m5/m6 with all earlier ones
excluded and a hint at untouched code; m7/m8 and m9/m10 with a hint at shared helper code; m11/m12 for fifteen
properties, those whose checks had missed most first; a last round of thirty-six - m11/m12 for C06 C09 C14 C18 C20, m13/m14 for the other fifteen properties (one each for C02 C07 C11 C16) - of which seven were first missed by the check of their own property), **{n} changes** in all. Every change kept under
`/verif/seeded/<id>/` (patch, demonstration, README by the sub-agent, `meta.json`) was re-confirmed
here (`tools/confirm_mutant.sh`: tests pass with it, the demonstration fails with it and passes
without it) before being run against the checks (`tools/mutlab.sh`: applied to a scratch copy of the
repository, quick tier, reverted). `meta.json: detected_by` lists the checks whose quick tier
reported a VIOLATION; `seeded/<id>/also_checks` names further checks worth running for a change.

Result: **{caught} of {n}** are reported by the quick tier of at least one check, {own} of them by the
check of the property they were written against (the others by the check of a neighbouring
property: e.g. a CLI rate-table slip seeded against C06 is a C20 matter). {first_missed} changes were
**first missed** (or, twice, made a check end in a tool error instead of a verdict) and led to a
stronger check; the last column says what was added. The recurring blind spots were input *classes*,
not logic: values on which quantised and channel signs differ, exact ties, tall matrices, insertion
order, reuse of long-lived objects, infeasible configurations, non-canonical text/bytes, odd sizes.
Each was then added to every check where the class applies, not only to the one that missed.

{table}
**Harness robustness under seeded changes.** A change may make the *harness* misbehave instead of the
library: C08-m3 made it allocate gigabytes (fixed by screening numeric tokens), C13-m5 made TLC
search for an explanation that cannot exist (fixed by cheap necessary conditions evaluated first),
C18-m6 made the harness unwrap a name that no longer parses (fixed: reported as data). A harness
panic or time-out is always exit 2 (tool error), never a VIOLATION and never a pass.

### 14.1 Behaviour-preserving changes (false-alarm probe)

The converse experiment: sub-agents were asked for realistic changes in the code of a property that
do **not** break it (refactors, equivalent algorithms, changed internal order, other admissible
tie-breaks, reworded messages). Each was confirmed to pass the 42 tests (`tools/confirm_benign.sh`)
and then run against the quick tier of **all twenty** checks (`tools/benignlab.sh`); a check that
raises an alarm on one of them either depends on an unspecified detail (a false alarm: the check is
corrected) or the change does break a property after all (then it is a seeded change, not a benign
one). Kept under `/verif/benign/<id>/`. After the last strengthening of the checks all eighty were run once more against the
final checks (`out/benignfinal*.tsv`; and, after the very last changes, against the six checks those touched, `out/benignfinalB*.tsv`):
seventy-nine raise nothing, `C01-b1` is reported by C03 (see its verdict). After round 7 (the command-line probe of C18, `cut` in C19, the saturation class of C05, the new C20 classes and the two construction histories of the shared matrix builder and of C08) the thirty-four behaviour-preserving changes written against C02 C03 C04 C05 C08 C17 C18 C19 C20 were run against the checks those additions touched (C02 C05 C08 C09 C17 C18 C19 C20): no alarm.

{chr(10).join(brow)}

"""
open(D, 'w').write(s[:i] + text + tail)
print("section 14 rewritten:", n, "seeded,", caught, "caught,", len(ben), "benign")
