#!/usr/bin/env python3
"""Print the markdown table of DESIGN.md section 14 from seeded/*/meta.json and the first line of each README."""
import glob, json, os, re
NOTES = json.load(open('/verif/seeded/NOTES.json')) if os.path.exists('/verif/seeded/NOTES.json') else {}
print("| seeded change | what it does (sub-agent's title) | caught by (quick tier) | remark |")
print("|---|---|---|---|")
for d in sorted(glob.glob('/verif/seeded/C*-m*')):
    m = json.load(open(d + '/meta.json'))
    t = open(d + '/README.md').readline().strip().lstrip('#').strip()
    t = re.sub(r"^C\d\d\s*(/|mutant)?\s*m\d\s*[-—:]*\s*", "", t).replace('|', '/')
    det = ", ".join(m.get('detected_by') or []) or "**not caught**"
    print(f"| {m['name']} | {t} | {det} | {NOTES.get(m['name'], '')} |")
