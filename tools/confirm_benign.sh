#!/bin/bash
# confirm_benign.sh <Cxx> <bN> : in the scratch worktree /tmp/wt/<Cxx>, check that the behaviour-preserving change applies and
# passes the existing test suite; on success copy it to /verif/benign/<Cxx>-<bN>/ (patch.diff, README.md, meta.json).
set -u
id=$1; b=$2; wt=/tmp/wt/$id; d=$wt/_benign/$b
cd $wt || exit 2
git checkout -q -- src 2>/dev/null
git apply --check $d/patch.diff || { echo "RESULT $id $b patch does not apply"; exit 1; }
git apply $d/patch.diff
export CARGO_NET_OFFLINE=true
t=$(cargo test --offline 2>&1 | grep -E "^test result" | tr '\n' ';')
git checkout -q -- src
ok=1; echo "$t" | grep -q "FAILED\|failed; [1-9]" && ok=0; echo "$t" | grep -q "42 passed" || ok=0
echo "RESULT $id $b tests_ok=$ok"
if [ $ok = 1 ]; then
  dst=/verif/benign/$id-$b; mkdir -p $dst; cp $d/patch.diff $d/README.md $dst/; [ -f $d/demo.rs ] && cp $d/demo.rs $dst/
  python3 - "$id" "$b" "$t" <<'PY'
import json,sys
id,b,t=sys.argv[1:4]
json.dump({"property":id,"name":f"{id}-{b}","origin":"independent sub-agent given only the property text and a scratch worktree, asked for a change that does NOT break the property",
 "existing_tests_with_patch":t.strip(),"alarms":None},open(f"/verif/benign/{id}-{b}/meta.json","w"),indent=1)
PY
  echo "KEPT $dst"
fi
