#!/usr/bin/env python3
"""Regenerates /verif/MANIFEST.json from the table below (one source of truth for check registration)."""
import json, os, sys
sys.path.insert(0, '/verif/lib')
import props

LEVEL = {
 "C17": ("Sparse.tla (two mirrored adjacency lists, the ten mutators as coded) is model-checked exhaustively against SparseSet.tla "
         "(set of positions): Mirror, NoDup, refinement, weights, no-op equality on all histories of a 2x3 matrix. The real SparseMatrix is bound "
         "to SparseSet by trace validation in both directions: TLC-simulated behaviours replayed into the code and random histories recorded from it, "
         "with every query (contains, weights, three iterators, equality) compared by TLC after every step.",
         "TLC + Json/IOUtils modules; harness projection dumps query results verbatim; indices in range.",
         "TLA+ refinement model checking + trace validation (both directions)", "5 C17"),
}

def main():
    checks = []
    for pid in sorted(props.PIPELINES):
        if pid not in LEVEL:
            continue
        text, note, tech, ref = LEVEL[pid]
        checks.append({
            "property_id": pid,
            "quick_cmd": f"./check {pid} --tier quick",
            "thorough_cmd": f"./check {pid} --tier thorough",
            "evidence_file": f"/verif/evidence/{pid}.json",
            "replay_cmd_template": f"./check {pid} --replay {{path}}",
            "engine": "tlc-trace",
            "level_claimed": {"category": "model_checking", "text": text, "design_ref": "DESIGN.md §" + ref},
            "level_note": note,
            "technique": tech,
        })
    claimed = {c["property_id"] for c in checks}
    na = []
    for l in open('/verif/properties.jsonl'):
        p = json.loads(l)
        if p["id"] not in claimed:
            na.append({"property_id": p["id"], "reason": props.NOT_YET.get(p["id"], "check not built yet in this session; planned per DESIGN.md §5 (no technique switch)")})
    man = {
        "version": 1,
        "setup_cmd": "./check --setup",
        "hooks": {"guard": "ldpc_toolbox_verif", "enable": "RUSTFLAGS --cfg ldpc_toolbox_verif (set in harness/.cargo/config.toml); no hook is currently needed: every observation point is a public API",
                  "baseline_off_cmd": "cd /repo && cargo test --workspace --no-fail-fast --offline", "source_commits": [], "add_only": True},
        "engines": [{"name": "tlc-trace", "path": "/verif/check", "serves_properties": sorted(claimed),
                     "kind_free_text": "explicit TLA+ specifications (spec/*.tla) model-checked by TLC; bound to the code by trace validation: TLC-generated behaviours replayed into the real code and recorded traces of the real code judged by TLC (harness/ = Rust crate vh)"}],
        "checks": checks,
        "not_applicable": na,
        "notes": "See DESIGN.md. known_findings.json lists fixed/open genuine defects. VERIF_SEED / VERIF_TIER are honoured.",
    }
    json.dump(man, open('/verif/MANIFEST.json', 'w'), indent=1)
    print("MANIFEST: claimed", sorted(claimed), "not_applicable", len(na))

main()
