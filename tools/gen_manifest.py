#!/usr/bin/env python3
"""Regenerates /verif/MANIFEST.json from the table below (one source of truth for check registration)."""
import json, os, sys
sys.path.insert(0, '/verif/lib')
import props

LEVEL = {
 "C20": ("Cli.tla gives, per subcommand, the relation between arguments, exit status and outputs: the (rate, frame | block size) -> code identifier tables typed from the documentation (21 + 9 + 1, checked by TLC), documented girths, and what a clean failure is "
         "(non-zero status, message, no panic, no hang). The binary built from the working tree is bound by trace validation: every dvbs2 / ccsds / ccsds-c2 combination (valid and invalid) with stdout compared, through the canonical alist of what it "
         "parses to, with the digest of the library's matrix for the identifier the SPEC assigns to the arguments; peg / mackay-neal (incl. --search) against Config::run(seed); systematic judged by Systematic/GF2 operators (C09) on the parsed output; "
         "encode output bytes against puncture(encode(word)) per complete word; ber result lines (one per Eb/N0, stopping count, FER/BER identities).",
         "TLC + Json/IOUtils; SHA-256 and parsing of stdout by the harness; library-side references through the public API.",
         "TLA+ relational specification of the CLI + trace validation of runs of the built binary", "5 C20"),
 "C19": ("CApi.tla states the C interface as relations: a constructor returns NULL iff the file is unreadable, the alist does not parse, the name is not one of Factory!Names, the pattern is not empty-or-0/1-list, or (encoder) the systematic "
         "encoder rejects the matrix; decode returns iterations / -1 and the leading bits of the Rust decoder's word on the depunctured LLRs; encode writes the punctured codeword. The real extern \"C\" symbols are bound by trace validation: they are "
         "called from child processes with write-ahead records (an abort is attributed to its input), through files and strings, f64 and f32 entry points, output lengths 0..n, two interleaved handles, and every call is paired with the public Rust API on fresh objects; TLC evaluates the relations (name membership from the string itself; a text cut inside its column section must give NULL whatever the Rust parser says).",
         "TLC + Json/IOUtils; Rust-API references (their correctness is C01-C05, C10, C15, C02); encoder constructor only given matrices inside C02's domain.",
         "TLA+ relational specification + trace validation of FFI calls made in child processes", "5 C19"),
 "C06": ("QcCode.tla holds the standard's constants (n, k, q = (n-k)/360, degree profiles for all 21 identifiers, typed from EN 302 307-1) and the construction law; TLC proves on scaled-down parameters that consecutive columns of a group are "
         "shifts by q, that the parity part is a staircase (hence invertible, linear-time encodable) and that the base-address difference criterion is equivalent to the absence of 4-cycles (Tanner!Girth). The real matrices are bound by "
         "trace validation, one event per code: TLC checks dimensions, the quasi-cyclic law column by column (all columns of the short codes; all of every code in thorough), the degree profile, the dual diagonal, the 4-cycle criterion on the "
         "extracted base addresses, a 6-cycle witness for normal rate 1/2 (girth 6), encoder acceptance within a time bound, and the SHA-256 of the canonical alist against pins/dvbs2.json.",
         "TLC + Json/IOUtils; address tables only comparable with pins from the repaired tree (no offline copy of Annex B/C); syndrome/prefix of encodings and SHA-256 from the harness.",
         "TLA+ specification of the standard's law and constants + trace validation of the real matrices column by column", "5 C06"),
 "C07": ("Ccsds.tla holds the Blue Book constants (M table, protograph summand counts per cell, punctured block degree 6, C2 as a 2x16 array of weight-2 511-circulants) with consistency ASSUMEs; MC_Ccsds proves that insert+toggle expansion "
         "is the GF(2) sum of the permutation matrices and is regular iff no two summands collide (insert-only is a negative configuration). The real matrices are bound by trace validation, one event per code: TLC checks dimensions, cell weights "
         "row by row, block-column degrees, the M/4-circulant (511-circulant) structure row by row, rank / invertible-tail / (8176,7156) from the rank oracle, encoder acceptance, girth 6 of rate-1/2 k=1024 and of C2 (oracle 4-cycle test + a 6-cycle "
         "witness verified edge by edge) and SHA-256 against pins/ccsds.json.",
         "TLC + Json/IOUtils; ranks, 4-cycle test and SHA-256 are harness oracles; theta/phi/circulant tables only comparable with pins from the unchanged tree.",
         "TLA+ specification of the Blue Book structure + trace validation of the real matrices row by row", "5 C07"),
 "C16": ("MacKayNeal.tla and Peg.tla specify the constructions with the RNG replaced by nondeterministic choice: the column guard (available rows, uniform exchange condition, local-girth test), backtracking, girth retries; PEG's per-edge guard "
         "(unreachable, else maximal distance, then least degree). TLC explores every behaviour of small configurations and checks ResultOK (exact column weight, row bound, girth, row balance) and that every finished column was legal "
         "when inserted. The real code is bound by trace validation: the final matrix of each successful run is replayed as an insertion trace (ColumnLegal / ColumnLegalPeg evaluated by TLC with declarative distances and local girth from "
         "Tanner.tla), plus reproducibility (same seed twice and on another thread), seed diversity, and the rayon seed search under 1/4/16 threads against sequential runs of every seed in range.",
         "TLC + Json/IOUtils; insertion order read from iter_col (hint only); sequential reference for the search uses the real run().",
         "TLA+ model checking of the nondeterministic constructions + trace validation of final matrices as insertion traces", "5 C16"),
 "C13": ("BerEngine.tla (PlusCal) models the collector, W free-running workers, the unbounded result channel with its set of live sender handles, the capacity-1 terminate channels, joins, the reporter and epochs, one label per blocking or "
         "visible step. TLC explores every interleaving for W=2 (3 thorough), target 2, 1-2 epochs with three frame outcomes and checks StatsExact (counters = fold over consumed frames), StopExact, the outer-code rule, NoLeak, FinishedLast, "
         "NoStuck, one output-file line per Eb/N0 for the CLI's Progress thread (a third process), and Termination of collector and Progress as liveness properties under weak fairness in every fault mode; the as-found design (collector keeps a sender; join().unwrap()) is rejected in two negative configurations. The real engine is bound by trace "
         "validation of whole runs in child processes under a watchdog (worker counts via CPU affinity, scripted per-worker outcomes, randomised delays, Reporter interval 0, fault injection): TLC must explain the report stream by consuming "
         "worker outcomes in per-worker order (inferring the unlogged arrival order by search), with exact counters, ratios, stopping frame, returned statistics, dropped decoders and Finished last; faults must end in an error, not a hang or panic. (Thorough tier: an Apalache inductive-invariant proof of the accumulation/stopping rule for unboundedly many frames is recorded as extra evidence.)",
         "TLC + Json/IOUtils; scripted decoder is the source of frame outcomes (bit errors = flips relies on C12); schedules of the real engine are perturbed, not enumerated; 20 s watchdog.",
         "PlusCal/TLA+ model checking of all interleavings (safety + liveness) + trace validation of real multi-threaded runs with inference of unlogged choices", "5 C13"),
 "C12": ("Chain.tla composes puncture -> interleave -> (channel) -> deinterleave -> depuncture on tagged positions and states the sizes (n counted after puncturing, rate = k/n, sigma^2 = 1/(2 rate bps Eb/N0)); TLC checks on all "
         "small patterns/shapes that the composition delivers every kept tag to its own position and ZERO elsewhere (a wrong inverse order is a negative configuration). The real BER engine is bound by trace validation through a "
         "recording decoder injected via the public DecoderFactory: TLC checks every recorded frame (length, exact-zero positions = punctured positions, sign pattern completes to a codeword), the reported sizes for ~320 (pattern, size) "
         "pairs, the exact bit-error accounting of scripted runs (one flipped systematic bit per error frame and nothing else), and LLR moments at 2/6 dB against a reference chain within 3-4 % bands, with sigma^2 recomputed by TLC in integer arithmetic.",
         "TLC + Json/IOUtils; reference chain uses the public modulator/demodulator (C14) and the harness's Gaussian source; statistical bands of 10 standard errors.",
         "TLA+ model checking of the frame pipeline on tags + trace validation of frames recorded inside real BER runs", "5 C12"),
 "C14": ("Psk.tla fixes the DVB-S2 8PSK label table (typed from EN 302 307-1 Fig. 10) and BPSK points on constellation indices; TLC verifies bijection, the Gray property, balanced bit partitions and the noiseless "
         "round trip for every bit sequence up to length 9. The real modulators/demodulators are bound by trace validation: octant index and unit energy of every modulated triple through four input memory layouts, "
         "demodulated LLRs on a polar grid / random samples / sigma 0.01..100 against the posterior computed from the spec's table (TLC checks the harness copy of the table equals the spec and evaluates the tolerance "
         "1e-13*max(1, scale) and sign clauses), and hard-decision round trips for all short and random long sequences.",
         "TLC + Json/IOUtils; log-sum-exp posterior oracle in f64 in the harness.",
         "TLA+ constellation specification + trace validation of modulate/demodulate calls", "5 C14"),
 "C15": ("Chain.tla states the interleaver as the index map of the statement, the deinterleaver as an independently written inverse map, and puncture / depuncture / rate on blocks. TLC checks for every (C, R, direction) "
         "up to 5x5 (6x6) and every pattern up to length 4 (5) that interleave is a permutation obeying the formula, deinterleave inverts it, puncture keeps exactly the TRUE blocks in order and depuncture restores them with zeros; "
         "a wrong inverse order is a negative configuration. The real Interleaver (u32, f64, GF2 element types) and Puncturer are bound by trace validation on tagged inputs: TLC recomputes every output index, and lengths that do not "
         "fit must give an error, not a panic or a shorter vector.",
         "TLC + Json/IOUtils; inputs are position tags.",
         "TLA+ model checking of index maps + trace validation on tagged inputs", "5 C15"),
 "C18": ("Factory.tla derives the 36 documented implementations from the naming rule (24 arithmetic type names; HL prefix <=> layered; which arithmetics have a layered form) and TLC checks the table is a bijection of "
         "size 36. The real factory is bound by trace validation: every name's parse / Display / clap string, the C constructor and the real command-line parser (`ber --decoder <s>` must select exactly the named implementation), clap's value list as a set, ~360 near-miss strings that FromStr, the C constructor and the command line must all reject, and a Table event in which TLC requires "
         "the fingerprint of each factory-built decoder on a seeded separating family to equal that of the generic decoder constructed directly from the named arithmetic type and schedule, and the 36 fingerprints to be pairwise distinct.",
         "TLC + Json/IOUtils; harness splits names at the HL prefix; FNV digest equality as behaviour equality on the family.",
         "TLA+ specification of the naming table + trace validation of parse/print/clap and behavioural fingerprints", "5 C18"),
 "C03": ("BP.tla is the textbook: flooding (all check messages from the previous variable messages, then all variable updates) and horizontal layered (checks in row order with immediate update), syndrome test after "
         "every full iteration, generic over arithmetic operators. TLC checks with exact integer min-sum that after #checks+1 forced iterations the LLRs on forests equal the tropical posterior (min-cost difference over all "
         "codewords) for both schedules. The real generic decoders are bound by trace validation: instantiated with the checker-supplied IntMinSum (value types scaled differently so a mis-routed conversion is visible), one "
         "long-lived decoder per short call history, and TLC recomputes verdict/word/iterations of every call from BP.tla; the 20 factory-built 8-bit decoders are compared call by call with BP.tla composed with the exact integer rule sets of Arith.tla (BP8.tla); the posterior clause is checked with the real Phi/Tanh arithmetics wrapped to iterate diameter(+3) times on random forests against a brute-force posterior.",
         "TLC + Json/IOUtils; IntMinSum (harness) implements MinSum.tla; brute-force posterior oracle in f64; f32/f64 tolerance constants in Trace_C03.tla, applied inside the working range.",
         "TLA+ model checking of the textbook schedules (tropical exactness) + trace validation of the real generic decoders with a checker-supplied arithmetic", "5 C03"),
 "C04": ("Arith.tla contains the exact integer model of the sixteen 8-bit check rules (correction table typed independently, fold with clamp, first-minimum A-Min*, saturating lookup, partial hard limit) and the "
         "property-level clauses (one message per neighbour, sign parity of the others, magnitude bound, tracking of the real-valued rule within accumulated table rounding B(kind,d)); TLC proves range, sign and magnitude "
         "clauses on the model by enumeration over a lattice (MC_Arith). The real send_check_messages of all 24 types, called on ONE long-lived arithmetic object per type, is bound by trace validation: TLC "
         "evaluates the clauses on every recorded call; floating-point accuracy is judged by TLC against tolerance formulas in Arith.tla using references and distances (centibels) from the harness oracle.",
         "TLC + Json/IOUtils; harness oracle: stable pairwise box-plus in f64, real-valued min*-approx/A-Min*; tolerances follow K*d*eps*(1+e^|y|) inside the working range.",
         "TLA+ model checking of the 8-bit rule models + trace validation of recorded arithmetic calls", "5 C04"),
 "C05": ("Arith.tla gives exact integer definitions of the 8-bit quantiser, variable rule (Jones / degree-one clip, symmetric saturation) and layered rule; MC_Arith proves range, accumulator bound and "
         "layered = flooding-on-extrinsics on a lattice. The statement fixes exact values, so equality with the model IS the property-level predicate: every recorded call of input_llr_quantize, send_var_messages "
         "(degrees 1..200) and update_check_messages_and_vars of the 16 8-bit types is recomputed by TLC; the layered rule of all 24 types is compared with the type's own flooding rule on the extrinsics; float sums under a relative tolerance. Harness built with overflow checks: any wrap is a panic event, which TLC rejects.",
         "TLC + Json/IOUtils; f64 reference sums for float types from the harness.",
         "TLA+ exact integer model + trace validation of recorded arithmetic calls", "5 C05"),
 "C01": ("BP.tla specifies both schedules generically over an arithmetic and DecodeRel.tla the arithmetic-independent relation C01Rel between input sign pattern, limit and result. TLC checks C01Rel on the "
         "model's own results for both schedules with exact integer min-sum on five Tanner graphs x every LLR vector over a 4/5-value domain x limits 0..2/3. The real code is bound by trace validation: "
         "every one of the 36 factory-built decoders is run on seeded matrices/LLR classes and TLC evaluates C01Rel on every recorded result (the relation needs no arithmetic model, so it applies to the float decoders too).",
         "TLC + Json/IOUtils; hard_in computed by the harness as llr <= 0.0.",
         "TLA+ model checking of the BP schedules + trace validation of recorded decode calls against C01Rel", "5 C01"),
 "C10": ("BP.tla models the decoder OBJECT: which buffers persist across calls and what initialize() resets. TLC explores every history of 2 (3 thorough) calls over a call alphabet on five graphs and both "
         "schedules and checks result = result of a fresh object; the as-found flooding model (output LLRs not reset) is a negative configuration. The real code is bound by trace validation of seeded "
         "histories (5..20 calls) on one long-lived decoder per each of the 36 names: TLC requires every result to equal the recorded fresh-decoder result, equal arguments to give equal results across the history, and C01Rel.",
         "TLC + Json/IOUtils; fresh reference built by the same factory name from a clone of the matrix.",
         "TLA+ model checking of call histories on the decoder-object model + trace validation of recorded histories", "5 C10"),
 "C08": ("Alist.tla specifies the token-level format (writer, padded/unpadded, ValidAlist) and the line-oriented parser of from_alist as a state machine. TLC checks on every matrix up to 3x3 "
         "(3x4 thorough) and both paddings that the written text conforms, is valid and parses back, and on ~10^4 token soups that the parser machine never panics and accepts every valid text; the "
         "as-found parser without range check and the as-found padding underflow are negative configurations. The real writer/parser are bound by trace validation: tokenised real output judged by "
         "WriteConforms + parse-back equality, and mutated/soup texts judged for totality and acceptance of valid texts.",
         "TLC + Json/IOUtils; harness tokeniser (split on newline / whitespace, digit strings to integers); declared dimensions <= 20000.",
         "TLA+ model checking of writer/parser state machine + trace validation", "5 C08"),
 "C02": ("Encoder.tla models from_h/encode as coded (staircase test, Gauss-Jordan step machine in Linalg.tla, dense and accumulator arms); TLC checks on every binary "
         "matrix up to 3x4 (3x5 thorough) that the verdict equals kernel-brute-force invertibility of the tail and that every codeword is systematic, satisfies H and is linear. "
         "The real encoder is bound by trace validation: the same exhaustive matrices plus random classes up to 12x30 are run through Encoder::from_h/encode and TLC judges every "
         "(verdict, message, codeword) with the property-level operators FromHOK/EncOK (witness-checked for r > 7).",
         "TLC + Json/IOUtils; harness only converts matrices/bit vectors; oracle witnesses for r > 7 are verified by TLC.",
         "TLA+ model checking of the elimination step machine + trace validation of the real encoder", "5 C02"),
 "C09": ("Systematic.tla models row_echelon_form (step machine) and the pivot scan with its assertions; TLC checks SysOK (error iff rank deficient, by row-space cardinality; "
         "column permutation; invertible tail; encoder accepts) and absence of panics on every matrix up to 3x4 (3x5 thorough); the as-found assertion placement is kept as a "
         "negative configuration that TLC must reject. The real parity_to_systematic is bound by trace validation on the exhaustive set plus random classes up to 12x30.",
         "TLC + Json/IOUtils; oracle witnesses for r > 7 verified by TLC.",
         "TLA+ model checking + trace validation", "5 C09"),
 "C11": ("Tanner.tla defines distances, local girth (node deletion) and girth declaratively; BfsAlgo.tla models the FIFO of path heads of bfs.rs step by step. TLC checks on every "
         "bipartite graph up to 3x3 (3x4 thorough), every root and 7 bounds that the algorithm equals the declarative quantities (the as-found first-collision rule is a negative "
         "configuration). The real bfs/girth/girth_at_node(_with_max) are bound by trace validation: exhaustive small graphs and random graphs up to 8x10, every result recomputed by TLC "
         "from the declarative definitions.",
         "TLC + Json/IOUtils; harness reports results verbatim.",
         "TLA+ model checking of the BFS step machine against declarative graph definitions + trace validation", "5 C11"),
 "C17": ("Sparse.tla (two mirrored adjacency lists, the ten mutators as coded) is model-checked exhaustively against SparseSet.tla "
         "(set of positions): Mirror, NoDup, refinement, weights, no-op equality on all histories of a 2x3 matrix. The real SparseMatrix is bound "
         "to SparseSet by trace validation in both directions: TLC-simulated behaviours replayed into the code and random histories recorded from it, "
         "with every query (contains, weights, three iterators, equality) compared by TLC after every step. (Thorough tier: an Apalache inductive-invariant proof of "
         "TypeOK /\\ NoDup /\\ Mirror /\\ Refines for symbolic dimensions and unbounded histories, with a refuted flawed twin, is recorded as extra evidence.)",
         "TLC + Json/IOUtils modules; harness projection dumps query results verbatim; indices in range.",
         "TLA+ refinement model checking + trace validation (both directions)", "5 C17"),
}

def main():
    checks = []
    for pid in sorted(props.PIPELINES):
        if pid not in LEVEL:
            continue
        text, note, tech, ref = LEVEL[pid]
        checks.append({
            "property_id": pid,
            "quick_cmd": f"./check {pid} --tier quick",
            "thorough_cmd": f"./check {pid} --tier thorough",
            "evidence_file": f"/verif/evidence/{pid}.json",
            "replay_cmd_template": f"./check {pid} --replay {{path}}",
            "engine": "tlc-trace",
            "level_claimed": {"category": "model_checking", "text": text, "design_ref": "DESIGN.md §" + ref},
            "level_note": note,
            "technique": tech,
        })
    claimed = {c["property_id"] for c in checks}
    na = []
    for l in open('/verif/properties.jsonl'):
        p = json.loads(l)
        if p["id"] not in claimed:
            na.append({"property_id": p["id"], "reason": props.NOT_YET.get(p["id"], "check not built yet in this session; planned per DESIGN.md §5 (no technique switch)")})
    man = {
        "version": 1,
        "setup_cmd": "./check --setup",
        "hooks": {"guard": "ldpc_toolbox_verif", "enable": "RUSTFLAGS --cfg ldpc_toolbox_verif (set in harness/.cargo/config.toml); one hook: `pub mod verif_hooks` in src/lib.rs re-exports the selection helpers of the private module util.rs (used by C16); every other observation point is a public API",
                  "baseline_off_cmd": "cd /repo && cargo test --workspace --no-fail-fast --offline", "source_commits": ["48f03b5"], "add_only": True},
        "engines": [{"name": "tlc-trace", "path": "/verif/check", "serves_properties": sorted(claimed),
                     "kind_free_text": "explicit TLA+ specifications (spec/*.tla) model-checked by TLC; bound to the code by trace validation: TLC-generated behaviours replayed into the real code and recorded traces of the real code judged by TLC (harness/ = Rust crate vh)"}],
        "checks": checks,
        "not_applicable": na,
        "notes": "See DESIGN.md. known_findings.json lists fixed/open genuine defects. VERIF_SEED / VERIF_TIER are honoured.",
    }
    json.dump(man, open('/verif/MANIFEST.json', 'w'), indent=1)
    print("MANIFEST: claimed", sorted(claimed), "not_applicable", len(na))

main()
