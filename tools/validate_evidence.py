#!/usr/bin/env python3-vt
import json, sys, glob, jsonschema
sch = json.load(open('/root/.vp/EVIDENCE.schema.json'))
msch = json.load(open('/root/.vp/MANIFEST.schema.json'))
bad = 0
for f in sorted(glob.glob('/verif/evidence/*.json')):
    try:
        jsonschema.validate(json.load(open(f)), sch)
    except Exception as e:
        print("INVALID", f, str(e)[:300]); bad += 1
try:
    jsonschema.validate(json.load(open('/verif/MANIFEST.json')), msch)
    print("MANIFEST ok")
except Exception as e:
    print("MANIFEST INVALID", str(e)[:300]); bad += 1
print("evidence files:", len(glob.glob('/verif/evidence/*.json')), "invalid:", bad)
sys.exit(1 if bad else 0)
