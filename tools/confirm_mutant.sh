#!/bin/bash
# confirm_mutant.sh <Cxx> <mN> : confirm in the scratch worktree /tmp/wt/<Cxx> that the seeded change
# (a) applies, (b) passes the existing test suite, (c) makes the demo fail, and the demo passes without it.
# On success, copies it to /verif/seeded/<Cxx>-<mN>/ with meta.json.
set -u
id=$1; m=$2; wt=/tmp/wt/$id; d=$wt/_mutants/$m
cd $wt || exit 2
git checkout -q -- src 2>/dev/null
demo=$(ls examples/ | grep -i "demo" | grep -i "${m}\|$(grep -o 'demo_[a-z0-9_]*' $d/README.md | head -1 | sed 's/\.rs//')" | head -1)
dn=$(grep -o 'demo_[A-Za-z0-9_]*' $d/README.md | head -1)
if [ ! -f examples/$dn.rs ]; then cp $d/demo.rs examples/$dn.rs; fi
git apply --check $d/patch.diff || { echo "RESULT $id $m patch does not apply"; exit 1; }
git apply $d/patch.diff
export CARGO_NET_OFFLINE=true
t=$(cargo test --offline 2>&1 | grep -E "^test result" | tr '\n' ';')
tests_ok=1; echo "$t" | grep -q "FAILED\|failed; [1-9]" && tests_ok=0
echo "$t" | grep -q "42 passed" || tests_ok=0
cargo run -q --offline --example $dn > /tmp/wt/demo_${id}_${m}_with.log 2>&1; with_rc=$?
git checkout -q -- src
cargo run -q --offline --example $dn > /tmp/wt/demo_${id}_${m}_without.log 2>&1; without_rc=$?
echo "RESULT $id $m demo=$dn tests_ok=$tests_ok with_rc=$with_rc without_rc=$without_rc"
if [ $tests_ok = 1 ] && [ $with_rc != 0 ] && [ $without_rc = 0 ]; then
  dst=/verif/seeded/$id-$m; mkdir -p $dst
  cp $d/patch.diff $dst/patch.diff; cp examples/$dn.rs $dst/$dn.rs; cp $d/README.md $dst/README.md
  python3 - "$id" "$m" "$dn" "$t" "$with_rc" <<'PY'
import json,sys
id,m,dn,t,rc=sys.argv[1:6]
json.dump({"property":id,"name":f"{id}-{m}","origin":"independent sub-agent given only the property text and a scratch worktree",
 "needs_to_manifest":"see README.md (written by the sub-agent)",
 "confirmed":{"worktree":f"/tmp/wt/{id} (removed afterwards)","existing_tests_with_patch":t.strip(),
   "demo":f"cargo run --offline --example {dn}","demo_exit_with_patch":int(rc),"demo_exit_without_patch":0},
 "detected_by":None},open(f"/verif/seeded/{id}-{m}/meta.json","w"),indent=1)
PY
  echo "KEPT $dst"
fi
