#!/usr/bin/env python3
"""Prompt for a sub-agent that produces BEHAVIOUR-PRESERVING changes (with respect to one property): the checks must stay quiet on them."""
import json, sys
pid = sys.argv[1]
wt = sys.argv[2] if len(sys.argv) > 2 else f"/tmp/wt/{pid}"
import glob, re
prior = "; ".join(re.sub(r"^C\d\d\s*(/|-)?\s*b\d\s*[-\u2014:]*\s*", "", open(d).readline().strip().lstrip('#').strip()) for d in sorted(glob.glob(f"/verif/benign/{pid}-b*/README.md")))
for l in open('/verif/properties.jsonl'):
    p = json.loads(l)
    if p['id'] == pid:
        break
else:
    sys.exit("no such property")
print(f"""You are helping to evaluate a verification framework for a Rust library by producing HARMLESS changes: a good framework must stay silent on them.

The library is daniestevez/ldpc-toolbox (Rust LDPC toolbox: DVB-S2/CCSDS parity-check construction, alist sparse matrices, systematic encoder, belief-propagation decoders with many arithmetics, BER simulation). You have your OWN scratch git worktree of it at {wt} — work ONLY inside that directory (never touch /repo or /verif, never read /verif). The sandbox is offline: always use `cargo ... --offline`. Build output must stay inside {wt}/target.

Here is a semantic property of the library that is supposed to always hold:

  id: {p['id']}
  title: {p['title']}
  statement: {p['statement']}
  quantified over: {p['quantifier']['text']}
  relevant files: {', '.join(p['anchors']['files'])}

YOUR TASK: produce TWO different, independent source changes ("refactors") to the library (files under {wt}/src), in the code this property is about, each of which
  (a) does NOT break the property above: for every input / history / schedule / configuration the statement still holds — argue this carefully, clause by clause;
  (b) compiles and passes the complete existing test suite: `cd {wt} && cargo test --offline` (42 unit tests + doc tests);
  (c) is REALISTIC and NON-TRIVIAL: the kind of change a maintainer really makes — a refactor, an optimisation, a different but equivalent algorithm or data layout, a changed internal order of storage or of evaluation that the property does not fix, buffer reuse done correctly, early exits that are really equivalent, changed wording of an error message, a different but admissible tie-break or random-number consumption where the property leaves the choice open, extra validation that rejects only inputs outside the property's domain, etc. It should change observable-but-unspecified details where possible (internal ordering, exact floating-point rounding within tolerance, which of several admissible results is returned, text of messages, timing), i.e. things that an over-fitted checker might wrongly depend on. Pure renames, comments or formatting do not count.
  (d) touches a few to a few dozen lines.

For each refactor write, under {wt}/_benign/b3/ and {wt}/_benign/b4/ :
  - patch.diff : `git diff` of ONLY the library source change (relative to the worktree HEAD), applicable with `git apply` from the repository root.
  - README.md : what was changed, which unspecified detail changes observably (if any), and the argument why every clause of the property still holds; the commands you ran with their results (`cargo test --offline` passes with the patch).
  - optionally demo.rs : a small example that shows the property still holding on tricky inputs with the patch.

Procedure: read the relevant source; design refactor 1; apply it; run `cargo test --offline` (must pass); save files; `git checkout -- src`; repeat for the second one. Leave the worktree's src/ CLEAN at the end; only the untracked _benign/ directory should remain.

Two harmless changes for this property have ALREADY been produced by someone else: {prior}. Produce two DIFFERENT ones: other functions, other kinds of unspecified detail (for example: the ORDER or NUMBER of calls made to user-supplied code such as arithmetic / factory / reporter objects; which thread does what and when; how often intermediate reports are sent; extra or fewer allocations and their sizes; the order of independent validations; values returned on inputs OUTSIDE the property's domain; exact tie-breaks the statement leaves open; internal caching that is invalidated correctly).

Note: be careful to stay inside the property: if you are not sure a clause still holds, choose a different refactor. The unmodified library is the reference for behaviour the property DOES fix.

In your final answer, give a 4-line summary per refactor (file changed, what changes observably, why the property still holds, test results).""")
