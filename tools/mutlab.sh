#!/bin/bash
# mutlab.sh [name ...] : run seeded changes against the checks in a SCRATCH copy (/tmp/mutlab/{repo,verif}) so that
# /repo and /verif stay usable meanwhile. The copy of /verif is taken from the working tree (not only committed files),
# its harness is re-pointed at the scratch repository. Results: /verif/out/mutants.tsv (+ meta.json detected_by).
set -u
LAB=${LAB:-/tmp/mutlab}
mkdir -p $LAB
if [ ! -d $LAB/repo ]; then git -C /repo worktree add -q --detach $LAB/repo HEAD; else git -C $LAB/repo checkout -q --detach $(git -C /repo rev-parse HEAD); git -C $LAB/repo checkout -q -- .; fi
rsync -a --delete --exclude out --exclude .git /verif/ $LAB/verif/
mkdir -p $LAB/verif/out
sed -i "s|path = \"/repo\"|path = \"$LAB/repo\"|" $LAB/verif/harness/Cargo.toml
export VERIF_REPO=$LAB/repo
names="$@"; [ -z "$names" ] && names=$(ls /verif/seeded)
for n in $names; do
  d=/verif/seeded/$n
  props=$(python3 -c "import json;print(json.load(open('$d/meta.json'))['property'])")
  [ -f $d/also_checks ] && props="$props $(cat $d/also_checks)"
  if ! git -C $LAB/repo apply --check $d/patch.diff 2>/dev/null; then echo -e "$n\t-\tpatch no longer applies"; continue; fi
  git -C $LAB/repo apply $d/patch.diff
  det=""
  for p in $props; do
    out=$(cd $LAB/verif && timeout 1500 ./check $p --tier ${TIER:-quick} 2>&1); rc=$?
    nv=$(echo "$out" | grep -c '^VIOLATION')
    echo -e "$n\t$p\trc=$rc\t$nv violation line(s)\t$(echo "$out" | grep -E 'TOOL-ERROR' | head -1)"
    [ "$rc" = "1" ] && det="$det $p"
  done
  git -C $LAB/repo checkout -q -- .
  python3 - "$d/meta.json" "$det" <<'PY'
import json,sys
m=json.load(open(sys.argv[1])); m['detected_by']=sys.argv[2].split(); json.dump(m,open(sys.argv[1],'w'),indent=1)
PY
done
