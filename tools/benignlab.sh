#!/bin/bash
# benignlab.sh [name ...] : apply each behaviour-preserving change of /verif/benign to a SCRATCH copy (/tmp/mutlab) and run the
# quick tier of ALL twenty checks (or $CHECKS): every one must exit 0. Results: stdout (tsv) + meta.json "alarms".
set -u
LAB=${LAB:-/tmp/mutlab}
mkdir -p $LAB
if [ ! -d $LAB/repo ]; then git -C /repo worktree add -q --detach $LAB/repo HEAD; else git -C $LAB/repo checkout -q --detach $(git -C /repo rev-parse HEAD); git -C $LAB/repo checkout -q -- .; fi
rsync -a --delete --exclude out --exclude .git /verif/ $LAB/verif/
mkdir -p $LAB/verif/out
sed -i "s|path = \"/repo\"|path = \"$LAB/repo\"|" $LAB/verif/harness/Cargo.toml
export VERIF_REPO=$LAB/repo
names="$@"; [ -z "$names" ] && names=$(ls /verif/benign)
checks=${CHECKS:-C01 C02 C03 C04 C05 C06 C07 C08 C09 C10 C11 C12 C13 C14 C15 C16 C17 C18 C19 C20}
for n in $names; do
  d=/verif/benign/$n
  if ! git -C $LAB/repo apply --check $d/patch.diff 2>/dev/null; then echo -e "$n\t-\tpatch no longer applies"; continue; fi
  git -C $LAB/repo apply $d/patch.diff
  alarms=""
  for p in $checks; do
    out=$(cd $LAB/verif && timeout 1500 ./check $p --tier quick 2>&1); rc=$?
    if [ "$rc" != "0" ]; then
      alarms="$alarms $p(rc=$rc)"
      echo -e "$n\t$p\trc=$rc\t$(echo "$out" | grep -E '^VIOLATION|TOOL-ERROR' | head -2 | tr '\n' ' ')"
      mkdir -p /verif/out/benign_replays/$n; cp $LAB/verif/out/replay/$p-* /verif/out/benign_replays/$n/ 2>/dev/null
    fi
  done
  git -C $LAB/repo checkout -q -- .
  echo -e "$n\tdone\talarms:[$alarms ]"
  python3 - "$d/meta.json" "$alarms" <<'PY'
import json,sys
m=json.load(open(sys.argv[1])); m['alarms']=sys.argv[2].split(); json.dump(m,open(sys.argv[1],'w'),indent=1)
PY
done
