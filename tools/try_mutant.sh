#!/bin/bash
# try_mutant.sh <seeded-name> [Cxx ...] : apply /verif/seeded/<name>/patch.diff to /repo, run the quick checks
# of the given properties (default: the property in meta.json), undo the patch straight afterwards.
name=$1; shift
dir=/verif/seeded/$name
props="$@"; [ -z "$props" ] && props=$(python3 -c "import json;print(json.load(open('$dir/meta.json'))['property'])")
cd /repo && git diff --quiet || { echo "/repo not clean"; exit 2; }
git -C /repo apply $dir/patch.diff || { echo "patch does not apply"; exit 2; }
trap 'git -C /repo checkout -- . ' EXIT
for p in $props; do
  out=$(cd /verif && ./check $p --tier ${TIER:-quick} 2>&1); rc=$?
  echo "MUTANT $name check=$p rc=$rc $(echo "$out" | grep -c '^VIOLATION') violation line(s)"
  echo "$out" | grep -E "^VIOLATION|TOOL-ERROR|KNOWN" | head -3
done
