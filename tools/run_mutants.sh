#!/bin/bash
# run_mutants.sh [name ...] : every seeded change against the check of its property (and extra checks listed in
# seeded/<name>/also_checks); writes out/mutants.tsv and updates meta.json "detected_by".
cd /verif
names="$@"; [ -z "$names" ] && names=$(ls seeded)
for n in $names; do
  d=seeded/$n
  props=$(python3 -c "import json;print(json.load(open('$d/meta.json'))['property'])")
  [ -f $d/also_checks ] && props="$props $(cat $d/also_checks)"
  if ! git -C /repo apply --check /verif/$d/patch.diff 2>/dev/null; then echo -e "$n\t-\tpatch no longer applies"; continue; fi
  det=""
  for p in $props; do
    out=$(tools/try_mutant.sh $n $p 2>&1 | head -1)
    rc=$(echo "$out" | sed -n 's/.*rc=\([0-9]*\).*/\1/p')
    echo -e "$n\t$p\trc=$rc"
    [ "$rc" = "1" ] && det="$det $p"
  done
  python3 - "$d/meta.json" "$det" <<'PY'
import json,sys
m=json.load(open(sys.argv[1])); m['detected_by']=sys.argv[2].split(); json.dump(m,open(sys.argv[1],'w'),indent=1)
PY
done
