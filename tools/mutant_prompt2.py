#!/usr/bin/env python3
"""Print the prompt given to an independent sub-agent that seeds a property-breaking change.
Usage: mutant_prompt.py Cxx  (the agent gets ONLY the property text and a scratch worktree)"""
import json, sys
pid = sys.argv[1]
ROUND2 = {
 "C13": "the BCH correct-iteration accounting in do_run; replacing the results channel by a bounded sync_channel",
 "C10": "moving the layered check-message reset out of initialize(); summing the whole phi scratch buffer",
 "C03": "removing the check-message reset in layered initialize(); the sign test of zero in the phi flooding rule",
 "C08": "the padding of empty lists in the padded writer; the off-by-one of the row range check in from_alist",
 "C12": "truncating instead of rounding the frame size in BerTest::new; swapping deinterleave/depuncture in Worker::simulate",
 "C01": "the zero-iteration pre-check of the layered decoder; skipping the syndrome test in flooding while no decision moved",
 "C05": "the quantiser threshold of the A-Min* i8 types; the hard-limited delta in the layered A-Min* i8 rule",
 "C16": "the column cleared by backtrack(); the inclusive range in Config::search",
 "C17": "set_row pushing without a presence check; remove() reading the wrong column weight",
 "C02": "the row-0 test in is_staircase; the forward loop bound in gauss_reduction",
 "C09": "the column range of the full-rank test; the elimination range in row_echelon_form",
 "C15": "a single-row/column shortcut in interleave/deinterleave; computing the depuncture size from the rate",
 "C04": "summing the whole phi scratch buffer; the <= in the A-Min* float sign for the least reliable input",
 "C14": "as_slice_memory_order in the 8PSK modulator; dropping the max shift in maxstar",
 "C18": "one row of the implementation table naming the wrong arithmetic; case-insensitive from_str",
 "C19": "inferring success from iterations < max_iterations; swallowing pattern parse errors in the encoder constructor",
 "C20": "read instead of read_exact in the encode loop; split_terminator in parse_puncturing_pattern",
 "C06": "a digit transposition in one address of the R1_2 table; a wrong arm in the CLI rate table",
 "C07": "the row offset of block (2,2) of the rate 4/5 part; transposing the C2 circulants",
 "C11": "continue -> break on a same-branch collision; halving the queueing bound in local_girth",
}
wt = sys.argv[2] if len(sys.argv) > 2 else f"/tmp/wt/{pid}"
for l in open('/verif/properties.jsonl'):
    p = json.loads(l)
    if p['id'] == pid:
        break
else:
    sys.exit("no such property")
R2 = ROUND2
print(f"""You are helping to evaluate a verification framework by seeding realistic bugs into a Rust library.

The library is daniestevez/ldpc-toolbox (Rust LDPC toolbox: DVB-S2/CCSDS parity-check construction, alist sparse matrices, systematic encoder, belief-propagation decoders with many arithmetics, BER simulation). You have your OWN scratch git worktree of it at {wt} — work ONLY inside that directory (never touch /repo or /verif, never read /verif). The sandbox is offline: always use `cargo ... --offline`. Build output must stay inside {wt}/target.

Here is a semantic property of the library that is supposed to always hold:

  id: {p['id']}
  title: {p['title']}
  statement: {p['statement']}
  quantified over: {p['quantifier']['text']}
  relevant files: {', '.join(p['anchors']['files'])}

YOUR TASK: produce TWO different, independent source changes ("mutants") to the library (files under {wt}/src), each of which
  (a) BREAKS the property above (some input / history / schedule / configuration now violates the statement),
  (b) still COMPILES and still passes the complete existing test suite: `cd {wt} && cargo test --offline` (42 unit tests + doc tests) must pass with the change applied,
  (c) is REALISTIC: the kind of slip a maintainer could make in a refactor or optimisation (off-by-one, wrong index, stale buffer, swapped operands, dropped reset, wrong comparison, misplaced statement, ...), small (a few lines), and NOT a blatant sabotage like `if x == 12345`,
  (d) needs something SPECIFIC to manifest — a particular multi-step sequence of operations, an unusual input class, a particular interleaving, a boundary value, or two cooperating sites that each look fine alone — NOT something that ordinary use would expose at once. Prefer subtle over obvious. The two mutants should break different clauses/aspects of the property, in different code locations if possible.

For each mutant write, under {wt}/_mutants/m3/ and {wt}/_mutants/m4/ :
  - patch.diff : `git diff` of ONLY the library source change (relative to the worktree HEAD), applicable with `git apply` from the repository root. It must not include the demonstration.
  - a demonstration: a small program `demo.rs` meant to be copied to `examples/demo_<something>.rs` and run with `cargo run --offline --example demo_<something>` (or an extra `#[test]`, in a separate file `demo_test.patch`), that exits non-zero / fails WITH the patch and exits 0 / passes WITHOUT it. Say in the README exactly how to run it.
  - README.md : which clause of the property is broken, what exactly is needed for the bug to manifest, and the commands you ran with their results (existing tests pass with patch; demo fails with patch; demo passes without patch).

Procedure: read the relevant source; design mutant 1; apply it; run `cargo test --offline` (must pass); run the demo (must fail); `git stash`/revert the source change; run the demo (must pass); save files; `git checkout -- src` so the worktree source is clean; repeat for the second mutant. Leave the worktree's src/ CLEAN (unmodified) at the end; only the untracked _mutants/ directory (and possibly examples/demo_*.rs copies) should remain.

Two changes for this property have ALREADY been produced by someone else, touching: {ROUND2.get(pid, "-")}. Produce two DIFFERENT ones (another code location, another clause of the property, another triggering condition).

Note: the unmodified library may already contain a few genuine defects; do not rely on those, and make sure your demo passes on the unmodified tree.

In your final answer, give a 5-line summary per mutant (file changed, what breaks, what is needed to trigger it, verification results).""")
