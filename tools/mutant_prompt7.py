#!/usr/bin/env python3
"""Print the prompt given to an independent sub-agent that seeds a property-breaking change.
Usage: mutant_prompt7.py Cxx mA mB  (the agent gets ONLY the property text and a scratch worktree)"""
import json, sys
pid = sys.argv[1]
import glob, re
def prior(pid):
    out = []
    for d in sorted(glob.glob(f"/verif/seeded/{pid}-m*/README.md")):
        first = open(d).readline().strip().lstrip('#').strip()
        first = re.sub(r"^C\d\d\s*(/|mutant)?\s*m\d\s*[-\u2014:]*\s*", "", first)
        out.append(first)
    return "; ".join(out)
HINT = {}
GENERIC = ("Also consider SHARED code that this property's code path runs through but that is not named in the relevant files "
           "(for example src/decoder.rs (Messages / check_llrs / hard_decisions), src/sparse.rs, src/gf2.rs, src/linalg.rs, src/simulation/factory.rs, "
           "src/simulation/channel.rs, src/cli.rs, src/c_api.rs): a slip there that only this property's unusual inputs expose is welcome")
wt = f"/tmp/wt/{pid}"
ma, mb = sys.argv[2], sys.argv[3]
for l in open('/verif/properties.jsonl'):
    p = json.loads(l)
    if p['id'] == pid:
        break
else:
    sys.exit("no such property")
print(f"""You are helping to evaluate a verification framework by seeding realistic bugs into a Rust library.

The library is daniestevez/ldpc-toolbox (Rust LDPC toolbox: DVB-S2/CCSDS parity-check construction, alist sparse matrices, systematic encoder, belief-propagation decoders with many arithmetics, BER simulation). You have your OWN scratch git worktree of it at {wt} — work ONLY inside that directory (never touch /repo or /verif, never read /verif). The sandbox is offline: always use `cargo ... --offline`. Build output must stay inside {wt}/target.

Here is a semantic property of the library that is supposed to always hold:

  id: {p['id']}
  title: {p['title']}
  statement: {p['statement']}
  quantified over: {p['quantifier']['text']}
  relevant files: {', '.join(p['anchors']['files'])}

YOUR TASK: produce TWO different, independent source changes ("mutants") to the library (files under {wt}/src), each of which
  (a) BREAKS the property above (some input / history / schedule / configuration now violates the statement),
  (b) still COMPILES and still passes the complete existing test suite: `cd {wt} && cargo test --offline` (42 unit tests + doc tests) must pass with the change applied,
  (c) is REALISTIC: the kind of slip a maintainer could make in a refactor or optimisation (off-by-one, wrong index, stale buffer, swapped operands, dropped reset, wrong comparison, misplaced statement, ...), small (a few lines), and NOT a blatant sabotage like `if x == 12345`,
  (d) needs something SPECIFIC to manifest — a particular multi-step sequence of operations, an unusual input class, a particular interleaving, a boundary value, or two cooperating sites that each look fine alone — NOT something that ordinary use would expose at once. Prefer subtle over obvious. The two mutants should break different clauses/aspects of the property, in different code locations if possible.

For each mutant write, under {wt}/_mutants/{ma}/ and {wt}/_mutants/{mb}/ :
  - patch.diff : `git diff` of ONLY the library source change (relative to the worktree HEAD), applicable with `git apply` from the repository root. It must not include the demonstration.
  - a demonstration: a small program `demo.rs` meant to be copied to `examples/demo_<something>.rs` and run with `cargo run --offline --example demo_<something>` (or an extra `#[test]`, in a separate file `demo_test.patch`), that exits non-zero / fails WITH the patch and exits 0 / passes WITHOUT it. Say in the README exactly how to run it.
  - README.md : which clause of the property is broken, what exactly is needed for the bug to manifest, and the commands you ran with their results (existing tests pass with patch; demo fails with patch; demo passes without patch).

Procedure: read the relevant source; design mutant 1; apply it; run `cargo test --offline` (must pass); run the demo (must fail); `git stash`/revert the source change; run the demo (must pass); save files; `git checkout -- src` so the worktree source is clean; repeat for the second mutant. NEVER use `git stash` (the stash is shared between worktrees): save your diff with `git diff > file` and restore with `git checkout -- src`. Leave the worktree's src/ CLEAN (unmodified) at the end; only the untracked _mutants/ directory (and possibly examples/demo_*.rs copies) should remain.

A dozen changes for this property have ALREADY been produced by other people: {prior(pid) + ". " + GENERIC}. Produce two DIFFERENT ones (another code location, another clause of the property, another triggering condition).

Note: the unmodified library may already contain a few genuine defects; do not rely on those, and make sure your demo passes on the unmodified tree.

In your final answer, give a 5-line summary per mutant (file changed, what breaks, what is needed to trigger it, verification results).""")
